-------------------------------- MODULE Prim --------------------------------
(***************************************************************************)
(* Primitive operators of the wow_srp specification.                       *)
(*                                                                         *)
(* Every operator X has a mathematical definition XDef written in TLA+ and *)
(* X == XDef.  When TLC is started with the wowsrp.Overrides class, X (never*)
(* XDef) is evaluated by JDK code (MessageDigest, BigInteger, a 20-line    *)
(* RC4) exactly as TLC itself overrides + on Naturals.  MCPrimSelfTest     *)
(* makes TLC compare X with XDef.                                          *)
(*                                                                         *)
(* Big numbers are little-endian byte strings of any length; results are   *)
(* minimal encodings (zero is <<>>).  The definitional side goes through   *)
(* LE2Nat and therefore only evaluates for operands below 2^31.            *)
(***************************************************************************)
EXTENDS Bytes, Integers, TLC

---------------------------------------------------------------------------
(* SHA-1 (FIPS 180-4) over 32-bit words held as <<hi16, lo16>>.            *)

W16 == 65536
Add32(a, b) == LET lo == a[2] + b[2]
                   hi == a[1] + b[1] + (lo \div W16)
               IN <<hi % W16, lo % W16>>
Xor32(a, b) == <<a[1] ^^ b[1], a[2] ^^ b[2]>>
And32(a, b) == <<a[1] & b[1], a[2] & b[2]>>
Or32(a, b)  == <<a[1] | b[1], a[2] | b[2]>>
Not32(a)    == <<65535 - a[1], 65535 - a[2]>>
RotlSmall(a, n) ==   \* 0 < n < 16
    LET p == 2^n  q == 2^(16 - n)
    IN << ((a[1] * p) % W16) + (a[2] \div q), ((a[2] * p) % W16) + (a[1] \div q) >>
Rotl(a, n) == IF n = 0 THEN a
              ELSE IF n < 16 THEN RotlSmall(a, n)
              ELSE IF n = 16 THEN <<a[2], a[1]>>
              ELSE RotlSmall(<<a[2], a[1]>>, n - 16)

Sha1Pad(m) ==
    LET n == Len(m)
        z == (119 - (n % 64)) % 64           \* zero bytes after 0x80
        bits == 8 * n
    IN m \o <<128>> \o Zeros(z) \o Zeros(4)
         \o <<(bits \div 16777216) % 256, (bits \div 65536) % 256, (bits \div 256) % 256, bits % 256>>

Sha1Words(blk) ==    \* 64 bytes -> 16 words
    [t \in 1..16 |-> << blk[4*t - 3] * 256 + blk[4*t - 2], blk[4*t - 1] * 256 + blk[4*t] >>]

RECURSIVE Sha1Extend(_)
Sha1Extend(w) ==
    IF Len(w) = 80 THEN w
    ELSE LET t == Len(w) + 1
             x == Xor32(Xor32(w[t - 3], w[t - 8]), Xor32(w[t - 14], w[t - 16]))
         IN Sha1Extend(Append(w, Rotl(x, 1)))

Sha1F(t, b, c, d) ==
    IF t < 20 THEN Or32(And32(b, c), And32(Not32(b), d))
    ELSE IF t < 40 THEN Xor32(Xor32(b, c), d)
    ELSE IF t < 60 THEN Or32(Or32(And32(b, c), And32(b, d)), And32(c, d))
    ELSE Xor32(Xor32(b, c), d)
Sha1K(t) ==
    IF t < 20 THEN <<23170, 31129>>       \* 5A827999
    ELSE IF t < 40 THEN <<28377, 60321>>  \* 6ED9EBA1
    ELSE IF t < 60 THEN <<36635, 48348>>  \* 8F1BBCDC
    ELSE <<51810, 49622>>                 \* CA62C1D6

RECURSIVE Sha1Rounds(_, _, _)
Sha1Rounds(w, t, s) ==     \* s = <<a, b, c, d, e>>, t = 0..80
    IF t = 80 THEN s
    ELSE LET tmp == Add32(Add32(Add32(Add32(Rotl(s[1], 5), Sha1F(t, s[2], s[3], s[4])), s[5]),
                                Sha1K(t)), w[t + 1])
         IN Sha1Rounds(w, t + 1, <<tmp, s[1], Rotl(s[2], 30), s[3], s[4]>>)

Sha1Block(h, blk) ==
    LET w == Sha1Extend(Sha1Words(blk))
        r == Sha1Rounds(w, 0, h)
    IN [i \in 1..5 |-> Add32(h[i], r[i])]

RECURSIVE Sha1Blocks(_, _)
Sha1Blocks(h, m) == IF Len(m) = 0 THEN h
                    ELSE Sha1Blocks(Sha1Block(h, SubSeq(m, 1, 64)), SubSeq(m, 65, Len(m)))

Sha1H0 == << <<26437, 8961>>, <<61389, 43913>>, <<39098, 56574>>, <<4146, 21622>>, <<50130, 57840>> >>

SHA1Def(m) ==
    LET h == Sha1Blocks(Sha1H0, Sha1Pad(m))
    IN [i \in 1..20 |->
          LET wd == h[((i - 1) \div 4) + 1]
              k  == (i - 1) % 4
          IN IF k = 0 THEN wd[1] \div 256 ELSE IF k = 1 THEN wd[1] % 256
             ELSE IF k = 2 THEN wd[2] \div 256 ELSE wd[2] % 256]

SHA1(m) == SHA1Def(m)

\* MD5 is override-only (RFC 1321 vectors are ASSUMEd in MCPrimSelfTest); writing
\* a second hash function out in TLA+ buys nothing for the properties.
MD5(m) == CHOOSE d \in {<<>>} : FALSE

\* HMAC (RFC 2104) with SHA-1, written in TLA+ over SHA1 (no override).
HMACSHA1(key, msg) ==
    LET k0 == IF Len(key) > 64 THEN SHA1(key) ELSE key
        k  == Pad(k0, 64)
        ipad == [i \in 1..64 |-> k[i] ^^ 54]
        opad == [i \in 1..64 |-> k[i] ^^ 92]
    IN SHA1(opad \o SHA1(ipad \o msg))

---------------------------------------------------------------------------
(* Big numbers                                                              *)

RECURSIVE PowModNat(_, _, _)
PowModNat(b, e, n) ==
    IF n = 1 THEN 0
    ELSE IF e = 0 THEN 1
    ELSE LET h == PowModNat(b, e \div 2, n)
             s == (h * h) % n
         IN IF e % 2 = 0 THEN s ELSE (s * (b % n)) % n

BnModExpDef(b, e, n) == Nat2LE(PowModNat(LE2Nat(b), LE2Nat(e), LE2Nat(n)))
BnMulModDef(a, b, n) == Nat2LE((LE2Nat(a) * LE2Nat(b)) % LE2Nat(n))
BnAddModDef(a, b, n) == Nat2LE((LE2Nat(a) + LE2Nat(b)) % LE2Nat(n))
BnSubModDef(a, b, n) == Nat2LE((LE2Nat(a) - LE2Nat(b)) % LE2Nat(n))   \* TLA+ % is floor-mod: result in 0..n-1
BnMulDef(a, b)       == Nat2LE(LE2Nat(a) * LE2Nat(b))
BnAddDef(a, b)       == Nat2LE(LE2Nat(a) + LE2Nat(b))
BnModDef(a, n)       == Nat2LE(LE2Nat(a) % LE2Nat(n))
BnDivDef(a, n)       == Nat2LE(LE2Nat(a) \div LE2Nat(n))
BnCmpDef(a, b)       == IF LE2Nat(a) < LE2Nat(b) THEN -1 ELSE IF LE2Nat(a) = LE2Nat(b) THEN 0 ELSE 1

BnModExp(b, e, n) == BnModExpDef(b, e, n)
BnMulMod(a, b, n) == BnMulModDef(a, b, n)
BnAddMod(a, b, n) == BnAddModDef(a, b, n)
BnSubMod(a, b, n) == BnSubModDef(a, b, n)
BnMul(a, b)       == BnMulDef(a, b)
BnAdd(a, b)       == BnAddDef(a, b)
BnMod(a, n)       == BnModDef(a, n)
BnDiv(a, n)       == BnDivDef(a, n)
BnCmp(a, b)       == BnCmpDef(a, b)

BnIsZero(a) == AllZero(a)
BnEq(a, b)  == Minimal(a) = Minimal(b)

---------------------------------------------------------------------------
(* RC4.  State <<S, i, j>>, S a sequence of 256 bytes with S[k+1] = S-box[k]. *)

Swap(S, a, b) == [S EXCEPT ![a + 1] = S[b + 1], ![b + 1] = S[a + 1]]

RECURSIVE Rc4Ksa(_, _, _, _)
Rc4Ksa(S, i, j, key) ==
    IF i = 256 THEN S
    ELSE LET j2 == (j + S[i + 1] + key[(i % Len(key)) + 1]) % 256
         IN Rc4Ksa(Swap(S, i, j2), i + 1, j2, key)

RC4InitDef(key) == << Rc4Ksa([k \in 1..256 |-> k - 1], 0, 0, key), 0, 0 >>

\* one PRGA step: returns <<keystream byte, state'>>
Rc4Step(st) ==
    LET i  == (st[2] + 1) % 256
        j  == (st[3] + st[1][i + 1]) % 256
        S2 == Swap(st[1], i, j)
    IN << S2[((S2[i + 1] + S2[j + 1]) % 256) + 1], <<S2, i, j>> >>

RECURSIVE Rc4Run(_, _, _, _)
Rc4Run(st, data, k, out) ==
    IF k > Len(data) THEN <<out, st>>
    ELSE LET r == Rc4Step(st)
         IN Rc4Run(r[2], data, k + 1, Append(out, data[k] ^^ r[1]))

RC4ApplyDef(st, data) == Rc4Run(st, data, 1, <<>>)

RC4Init(key)       == RC4InitDef(key)
RC4Apply(st, data) == RC4ApplyDef(st, data)

\* the permutation invariant of an RC4 state
Rc4StateOK(st) == /\ Len(st[1]) = 256
                  /\ {st[1][k] : k \in 1..256} = 0..255
                  /\ st[2] \in 0..255 /\ st[3] \in 0..255
=============================================================================
