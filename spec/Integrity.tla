------------------------------ MODULE Integrity ------------------------------
(***************************************************************************)
(* Client integrity hashes (C17): all three functions are                  *)
(*   SHA1(client public key | HMAC-SHA1(checksum salt, files concatenated  *)
(*   in argument order)); the reconnect check is SHA1(salt | 0^20).        *)
(***************************************************************************)
EXTENDS Prim

IntegrityCheck(files, salt, key) == SHA1(key \o HMACSHA1(salt, Concat(files)))
ReconnectCheck(salt) == SHA1(salt \o Zeros(20))
=============================================================================
