------------------------------- MODULE Bytes -------------------------------
(***************************************************************************)
(* Byte strings as they cross the wow_srp API: TLA+ sequences of 0..255.   *)
(* Multi-byte integers are little-endian unless an operator says otherwise.*)
(* TLC integers are 32-bit signed, so anything that can exceed 2^31 - 1    *)
(* (u32 seeds, opcodes, PINs, u64 seeds, 256-bit keys) is kept as bytes.   *)
(***************************************************************************)
EXTENDS Naturals, Sequences, Bitwise

Byte == 0..255

IsBytes(s) == \A i \in 1..Len(s) : s[i] \in Byte

Zeros(n) == [i \in 1..n |-> 0]
Fill(n, b) == [i \in 1..n |-> b]

\* zero-pad (high-order side, since strings are little-endian) to n bytes
Pad(s, n) == IF Len(s) >= n THEN s ELSE s \o Zeros(n - Len(s))

Take(s, n) == SubSeq(s, 1, n)
Drop(s, n) == SubSeq(s, n + 1, Len(s))

RevBytes(s) == [i \in 1..Len(s) |-> s[Len(s) + 1 - i]]

XorBytes(a, b) == [i \in 1..Len(a) |-> a[i] ^^ b[i]]

\* number of leading zero bytes, scanning from index 1 (the low-order end of a
\* little-endian number); Len(s) when every byte is zero
RECURSIVE LeadingZerosFrom(_, _)
LeadingZerosFrom(s, k) ==
    IF k > Len(s) THEN Len(s)
    ELSE IF s[k] # 0 THEN k - 1
    ELSE LeadingZerosFrom(s, k + 1)
LeadingZeros(s) == LeadingZerosFrom(s, 1)

\* strip high-order zero bytes of a little-endian number (zero becomes <<>>)
RECURSIVE Minimal(_)
Minimal(s) == IF Len(s) = 0 THEN s
              ELSE IF s[Len(s)] = 0 THEN Minimal(SubSeq(s, 1, Len(s) - 1))
              ELSE s

AllZero(s) == \A i \in 1..Len(s) : s[i] = 0

\* small integers <-> bytes (only for values TLC can hold)
RECURSIVE LE2Nat(_)
LE2Nat(s) == IF Len(s) = 0 THEN 0 ELSE s[1] + 256 * LE2Nat(Tail(s))

RECURSIVE Nat2LE(_)
Nat2LE(n) == IF n = 0 THEN <<>> ELSE <<n % 256>> \o Nat2LE(n \div 256)

U16BE(n) == <<(n \div 256) % 256, n % 256>>
U16LE(n) == <<n % 256, (n \div 256) % 256>>
U24BE(n) == <<(n \div 65536) % 256, (n \div 256) % 256, n % 256>>
U32LEsmall(n) == <<n % 256, (n \div 256) % 256, (n \div 65536) % 256, (n \div 16777216) % 256>>

BE16(b1, b2) == b1 * 256 + b2
LE16(b1, b2) == b2 * 256 + b1

\* flip bit n (0-based, bit n lives in byte n \div 8, mask 2^(n % 8))
Pow2(k) == CASE k = 0 -> 1 [] k = 1 -> 2 [] k = 2 -> 4 [] k = 3 -> 8
             [] k = 4 -> 16 [] k = 5 -> 32 [] k = 6 -> 64 [] k = 7 -> 128
FlipBit(s, n) == [s EXCEPT ![(n \div 8) + 1] = @ ^^ Pow2(n % 8)]

\* concatenation of a sequence of byte strings
RECURSIVE Concat(_)
Concat(ss) == IF Len(ss) = 0 THEN <<>> ELSE Head(ss) \o Concat(Tail(ss))

\* ASCII
Ascii(str) == str   \* strings in traces are already byte arrays; kept for readability
=============================================================================
