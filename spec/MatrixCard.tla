----------------------------- MODULE MatrixCard -----------------------------
(***************************************************************************)
(* Matrix cards (C18).  A card is [d, w, h, data] with d digits per cell   *)
(* and data of d*w*h digits in printing order (row after row).             *)
(***************************************************************************)
EXTENDS Prim

CellIndex(w, x, y) == y * w + x
Cell(d, w, data, x, y) == SubSeq(data, CellIndex(w, x, y) * d + 1, CellIndex(w, x, y) * d + d)
Printed(d, data) == [k \in 1..(Len(data) \div d) |-> SubSeq(data, (k - 1) * d + 1, k * d)]

RemoveAtM(s, k) == SubSeq(s, 1, k - 1) \o SubSeq(s, k + 1, Len(s))

\* challenged cell indices: selection without replacement driven by the mixed-radix digits of the seed
RECURSIVE CoordsFrom(_, _, _, _)
CoordsFrom(seed, left, i, count) ==       \* seed: little-endian bytes (u64)
    IF i = count THEN <<>>
    ELSE LET n   == Nat2LE(Len(left))
             idx == LE2Nat(BnMod(seed, n))
         IN <<left[idx + 1]>> \o CoordsFrom(BnDiv(seed, n), RemoveAtM(left, idx + 1), i + 1, count)
Coordinates(w, h, count, seed8) == CoordsFrom(seed8, [k \in 1..(w * h) |-> k - 1], 0, count)

\* get_matrix_coordinates(round): none outside 0..count-1
Coord(w, h, count, seed8, round) ==
    IF round >= count THEN [none |-> TRUE]
    ELSE LET c == Coordinates(w, h, count, seed8)[round + 1]
         IN [x |-> c % w, y |-> c \div w]

\* proof over the digits entered, in order
CardProof(seed8, K, entered) ==
    LET md == MD5(seed8 \o K)
        enc == RC4Apply(RC4Init(md), entered)[1]
    IN HMACSHA1(md, enc)

\* digits a user reads off the card for the challenged cells, in round order
Expected(d, w, h, data, count, seed8) ==
    LET cs == Coordinates(w, h, count, seed8)
    IN Concat([k \in 1..count |-> Cell(d, w, data, cs[k] % w, cs[k] \div w)])

CardVerify(d, w, h, data, count, seed8, K, proof) ==
    proof = CardProof(seed8, K, Expected(d, w, h, data, count, seed8))
=============================================================================
