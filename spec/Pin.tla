--------------------------------- MODULE Pin ---------------------------------
(***************************************************************************)
(* PIN hashes (C16).  pin and grid seed are u32, given as 4 little-endian  *)
(* bytes (TLC integers are 32-bit signed).                                 *)
(*   digits  = decimal digits of pin, most significant first (none for 0)  *)
(*   layout  = keypad layout derived from the seed by the factorial-base   *)
(*             procedure: for i = 10 downto 1: take element (seed mod i)   *)
(*             of the remaining digits, seed := seed div i                 *)
(*   remap   = each digit replaced by its position in the layout           *)
(*   hash    = SHA1(client salt | SHA1(server salt | ASCII(remapped)))     *)
(* A hash exists only for 4..10 digits.                                    *)
(***************************************************************************)
EXTENDS Prim

Fact10 == 3628800

RECURSIVE DigitsLSB(_)
DigitsLSB(n) == IF BnIsZero(n) THEN <<>>
                ELSE <<LE2Nat(BnMod(n, <<10>>))>> \o DigitsLSB(BnDiv(n, <<10>>))
Digits(pin4) == RevBytes(DigitsLSB(pin4))

DelAt(s, k) == SubSeq(s, 1, k - 1) \o SubSeq(s, k + 1, Len(s))

RECURSIVE LayoutFrom(_, _, _)
LayoutFrom(seed, i, grid) ==        \* seed a number below 2^31
    IF i = 0 THEN <<>>
    ELSE LET r == seed % i
         IN <<grid[r + 1]>> \o LayoutFrom(seed \div i, i - 1, DelAt(grid, r + 1))
LayoutNat(seed) == LayoutFrom(seed, 10, <<0, 1, 2, 3, 4, 5, 6, 7, 8, 9>>)

\* u32 seed as bytes: the first step in big-number arithmetic, the quotient fits an integer
Layout(seed4) ==
    LET r == LE2Nat(BnMod(seed4, <<10>>))
        q == LE2Nat(BnDiv(seed4, <<10>>))
        g == <<0, 1, 2, 3, 4, 5, 6, 7, 8, 9>>
    IN <<g[r + 1]>> \o LayoutFrom(q, 9, DelAt(g, r + 1))

PosIn(layout, d) == CHOOSE k \in 1..Len(layout) : layout[k] = d
Remap(layout, digits) == [k \in 1..Len(digits) |-> PosIn(layout, digits[k]) - 1]

HasHash(pin4) == Len(Digits(pin4)) >= 4 /\ Len(Digits(pin4)) <= 10
PinHash(pin4, seed4, ssalt, csalt) ==
    LET r == Remap(Layout(seed4), Digits(pin4))
        ascii == [k \in 1..Len(r) |-> r[k] + 48]
    IN SHA1(csalt \o SHA1(ssalt \o ascii))
PinVerify(pin4, seed4, ssalt, csalt, presented) ==
    HasHash(pin4) /\ PinHash(pin4, seed4, ssalt, csalt) = presented

IsPerm10(l) == Len(l) = 10 /\ {l[k] : k \in 1..10} = 0..9
=============================================================================
