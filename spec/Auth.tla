-------------------------------- MODULE Auth --------------------------------
(***************************************************************************)
(* The login / reconnect state machine of wow_srp: one action per public   *)
(* call.  Every random draw a call performs is an explicit parameter of    *)
(* its action, so a recorded execution (which logs the draws) determines   *)
(* the successor state, and a model can enumerate the draws.               *)
(*                                                                         *)
(* State: obj maps an object id to a typestate record                      *)
(*    verifier  (SrpVerifier)         [U, v, salt]                         *)
(*    proof     (SrpProof)            [U, v, salt, b, B]                   *)
(*    server    (SrpServer)           [U, K, chal]                         *)
(*    challenge (SrpClientChallenge)  [U, A, m1, K]                        *)
(*    client    (SrpClient)           [U, K]                               *)
(*    gone      (moved-from / dropped)                                     *)
(* out is the observable outcome of the last call: kind "ok", "err",       *)
(* "bool" or "panic" (only the two documented panics: a self-generated     *)
(* public key that is invalid).                                            *)
(***************************************************************************)
EXTENDS Srp6, NormString

\* The server's group: the built-in pair (7, WoWN) in every concrete instance; small prime
\* groups in the exhaustive models (same formulas, same 32-byte fields).
CONSTANTS SrvG, SrvN

VARIABLES obj, out
avars == <<obj, out>>

Has(o, st) == o \in DOMAIN obj /\ obj[o].st = st
Put(o, r)  == [x \in (DOMAIN obj) \cup {o} |-> IF x = o THEN r ELSE obj[x]]
Gone       == [st |-> "gone"]
\* consume o, produce r at o2 (typestate transition by value)
Move(o, o2, r) == [x \in (DOMAIN obj) \cup {o2} |->
                     IF x = o2 THEN r ELSE IF x = o THEN Gone ELSE obj[x]]

AuthInit == obj = <<>> /\ out = [kind |-> "none"]

---------------------------------------------------------------------------
\* SrpVerifier::from_username_and_password (draw: 32-byte salt)
Register(o, rawU, rawP, salt) ==
    /\ IsValid(rawU) /\ IsValid(rawP)
    /\ LET U == Text(rawU)  P == Text(rawP)
           v == Verifier(SrvG, SrvN, U, P, salt)
       IN /\ obj' = Put(o, [st |-> "verifier", U |-> U, v |-> v, salt |-> salt])
          /\ out' = [kind |-> "ok", U |-> U, v |-> v, salt |-> salt]

\* SrpVerifier::from_database_values (no computation, no draw)
Import(o, rawU, v, salt) ==
    /\ IsValid(rawU)
    /\ obj' = Put(o, [st |-> "verifier", U |-> Text(rawU), v |-> v, salt |-> salt])
    /\ out' = [kind |-> "ok", U |-> Text(rawU), v |-> v, salt |-> salt]

\* the three accessors of SrpVerifier
Export(o) ==
    /\ Has(o, "verifier")
    /\ obj' = obj
    /\ out' = [kind |-> "ok", U |-> obj[o].U, v |-> obj[o].v, salt |-> obj[o].salt]

\* SrpVerifier::into_proof (draw: 32-byte private key b)
IntoProof(o, o2, b) ==
    /\ Has(o, "verifier")
    /\ LET r == obj[o]
           B == ServerPub(SrvG, SrvN, r.v, b)
       IN IF KeyValid(B, SrvN)
          THEN /\ obj' = Move(o, o2, [st |-> "proof", U |-> r.U, v |-> r.v, salt |-> r.salt,
                                      b |-> b, B |-> B])
               /\ out' = [kind |-> "ok", B |-> B, salt |-> r.salt]
          ELSE /\ obj' = Move(o, o2, Gone)           \* documented panic: own key invalid
               /\ out' = [kind |-> "panic", documented |-> TRUE]

\* SrpClientChallenge::new (draw: 32-byte private key a); B is already a PublicKey
ClientNew(o, rawU, rawP, g, N, B, salt, a) ==
    /\ IsValid(rawU) /\ IsValid(rawP)
    /\ LET U == Text(rawU)  P == Text(rawP)
           A == ClientPub(g, N, a)
       IN IF BnIsZero(A)                              \* A = 0 (mod N): documented panic
          THEN /\ obj' = obj
               /\ out' = [kind |-> "panic", documented |-> TRUE]
          ELSE LET K  == ClientK(g, N, U, P, salt, A, B, a)
                   m1 == M1(g, N, U, salt, A, B, K)
               IN /\ obj' = Put(o, [st |-> "challenge", U |-> U, A |-> A, m1 |-> m1, K |-> K])
                  /\ out' = [kind |-> "ok", A |-> A, M1 |-> m1, K |-> K]

\* SrpProof::into_server (draw: 16-byte reconnect challenge, only on success)
IntoServer(o, o2, A, m1, chal) ==
    /\ Has(o, "proof")
    /\ LET p   == obj[o]
           K   == ServerK(SrvN, A, p.B, p.v, p.b)
           exp == M1(SrvG, SrvN, p.U, p.salt, A, p.B, K)
       IN IF m1 = exp
          THEN /\ obj' = Move(o, o2, [st |-> "server", U |-> p.U, K |-> K, chal |-> chal])
               /\ out' = [kind |-> "ok", M2 |-> M2(A, exp, K), K |-> K, chal |-> chal]
          ELSE /\ obj' = Move(o, o2, Gone)
               /\ out' = [kind |-> "err", client |-> m1, server |-> exp]

\* SrpClientChallenge::verify_server_proof
VerifyServerProof(o, o2, m2) ==
    /\ Has(o, "challenge")
    /\ LET c   == obj[o]
           exp == M2(c.A, c.m1, c.K)
       IN IF m2 = exp
          THEN /\ obj' = Move(o, o2, [st |-> "client", U |-> c.U, K |-> c.K])
               /\ out' = [kind |-> "ok", K |-> c.K]
          ELSE /\ obj' = Move(o, o2, Gone)
               /\ out' = [kind |-> "err", client |-> exp, server |-> m2]

\* SrpClient::calculate_reconnect_values (draw: 16-byte client challenge)
ReconnectValues(o, schal, cchal) ==
    /\ Has(o, "client")
    /\ obj' = obj
    /\ out' = [kind |-> "ok", cchal |-> cchal,
               proof |-> ReconnectProof(obj[o].U, cchal, schal, obj[o].K)]

\* SrpServer::verify_reconnection_attempt (draw: 16-byte new challenge, always)
VerifyReconnect(o, cdata, proof, newchal) ==
    /\ Has(o, "server")
    /\ LET s == obj[o]
       IN /\ out' = [kind |-> "bool", ok |-> (proof = ReconnectProof(s.U, cdata, s.chal, s.K)),
                     chalBefore |-> s.chal, chalAfter |-> newchal]
          /\ obj' = [obj EXCEPT ![o].chal = newchal]

\* Clone (every typestate derives Clone; a clone is an independent equal value)
CloneObj(o, o2) ==
    /\ o \in DOMAIN obj
    /\ obj' = Put(o2, obj[o])
    /\ out' = [kind |-> "ok"]

\* an object goes out of scope
DropObj(o) ==
    /\ obj' = [x \in (DOMAIN obj) \ {o} |-> obj[x]]
    /\ out' = [kind |-> "ok"]

\* session_key() accessors
SessionKeyOf(o) ==
    /\ (Has(o, "server") \/ Has(o, "client"))
    /\ obj' = obj
    /\ out' = [kind |-> "ok", K |-> obj[o].K]

---------------------------------------------------------------------------
(* State predicates used by the models and by trace validation.            *)

\* C01: an honest pair that both completed hold the same 40-byte key
KeysAgree(s, c) == (Has(s, "server") /\ Has(c, "client")) =>
                       (obj[s].K = obj[c].K /\ Len(obj[s].K) = 40)

TypeOK ==
    \A o \in DOMAIN obj :
       /\ obj[o].st \in {"verifier", "proof", "server", "challenge", "client", "gone"}
       /\ obj[o].st = "verifier" => (Len(obj[o].v) = 32 /\ Len(obj[o].salt) = 32)
       /\ obj[o].st = "proof" => (Len(obj[o].B) = 32 /\ KeyValid(obj[o].B, SrvN))
       /\ obj[o].st = "server" => (Len(obj[o].K) = 40 /\ Len(obj[o].chal) = 16)
       /\ obj[o].st = "challenge" => (Len(obj[o].K) = 40 /\ Len(obj[o].m1) = 20 /\ Len(obj[o].A) = 32)
       /\ obj[o].st = "client" => Len(obj[o].K) = 40

\* C14: the outcome of every action is orderly; a panic is one of the two documented ones
Total == out.kind \in {"none", "ok", "err", "bool"} \/ (out.kind = "panic" /\ out.documented)
=============================================================================
