----------------------------- MODULE TraceCipher -----------------------------
(***************************************************************************)
(* Trace specification for world login and header encryption (C06 - C12).  *)
(* Reuses the actions of Headers.  Absolute comparisons (bytes and cipher  *)
(* state against the specification) carry the tag of the cipher's own      *)
(* property (C07 vanilla, C08 tbc, C09 wrath); the relational properties   *)
(* are decided on cross references the harness records from the real code: *)
(*   C11  typed helper / wrapper / combined / half  vs  raw operation on a *)
(*        clone of the same state ("raw"), wire layout vs WireOf,          *)
(*        failed reads vs the pre-call object ("same")                     *)
(*   C10  header recovered vs header sent ("sent"), length / marker rules  *)
(*   C12  bytes vs a reference object handling one direction only ("ref"), *)
(*        split / unsplit / clone                                          *)
(***************************************************************************)
EXTENDS Headers, NormString, TraceBase

tvars == <<half, hout>>
vars  == <<half, hout, l, bad, stat>>

Init == HInit /\ BaseInit

ImplPanic(e) == e.res.kind = "panic"
PC(exp) == IF exp = "vanilla" THEN "C07" ELSE IF exp = "tbc" THEN "C08" ELSE "C09"
HasF(r, f) == f \in DOMAIN r

\* logged Debug state of a half vs the model's half
\* (a field that the Debug output no longer shows is not observed; the comparison of output bytes remains)
StOK(hf, st) ==
    IF hf.exp = "wrath"
    THEN /\ HasF(st, "S") => st.S = hf.st[1]
         /\ HasF(st, "i") => st.i = hf.st[2]
         /\ HasF(st, "j") => st.j = hf.st[3]
    ELSE /\ HasF(st, "key") => st.key = hf.key
         /\ HasF(st, "i") => st.i = hf.st.i
         /\ HasF(st, "p") => st.p = hf.st.p
\* the 4 parked bytes of the wrath client decoder (only meaningful after an attempt that asked for a fifth byte)
StashOK(hf, st) == HasF(st, "stash") => st.stash = hf.stash
\* two logged states are the same
SameSt(a, b) == a = b

SiteOf(exp) == IF exp = "vanilla" THEN "VanillaSeed" ELSE IF exp = "tbc" THEN "TbcSeed" ELSE "WrathSeed"

---------------------------------------------------------------------------
TrReset ==
    /\ l <= Len(Rec) /\ E.ev = "reset"
    /\ half' = <<>> /\ hout' = [kind |-> "none"]
    /\ bad' = FALSE /\ l' = l + 1
    /\ stat' = Bump(stat, {"scenarios"})
    /\ Finish(stat')

\* own seed: through new() the tap logged the draw; through default() it is only visible via seed()
OwnSeed(e) == IF e.via = "new" /\ DrawOK(e, 1, SiteOf(e.exp), 4) THEN e.draws[1].used ELSE e.res.seed

TrWorldClient ==
    /\ IsEv("WorldClient")
    /\ LET e == E IN
       IF ImplPanic(e) THEN UNCHANGED tvars /\ DoneK(<< <<"C14.total", FALSE>> >>, {"WorldClient"}, TRUE)
       ELSE LET cseed == OwnSeed(e) IN
            /\ WorldClient(e.he, e.hd, e.exp, Text(e.user), e.K, cseed, e.sseed)
            /\ Done(<< <<"C06.clientProof", e.res.proof = hout'.proof>>,
                       <<"C06.seedAccessor", e.res.seed = cseed>>,
                       <<"C15.draw.seed", e.via = "new" => (DrawOK(e, 1, SiteOf(e.exp), 4) /\ Len(e.draws) = 1)>>,
                       <<"C06.keyed", StOK(half'[e.he], e.res.est) /\ StOK(half'[e.hd], e.res.dst)>>,
                       << PC(e.exp) \o ".init", StOK(half'[e.he], e.res.est) /\ StOK(half'[e.hd], e.res.dst)>> >>,
                    {"WorldClient", "WorldClient." \o e.exp})

TrWorldServer ==
    /\ IsEv("WorldServer")
    /\ LET e == E IN
       IF ImplPanic(e) THEN UNCHANGED tvars /\ DoneK(<< <<"C14.total", FALSE>> >>, {"WorldServer"}, TRUE)
       ELSE LET sseed == OwnSeed(e)
                ok == e.res.kind = "ok" IN
            /\ WorldServer(e.he, e.hd, e.exp, Text(e.user), e.K, e.proof, sseed, e.cseed)
            /\ DoneK(<< <<"C06.iff", ok = (hout'.kind = "ok")>>,
                       <<"C06.payload", (~ok /\ hout'.kind = "err") =>
                            (e.res.client = e.proof /\ e.res.server = hout'.server)>>,
                       <<"C06.seedAccessor", e.res.seed = sseed>>,
                       <<"C15.draw.seed", e.via = "new" => (DrawOK(e, 1, SiteOf(e.exp), 4) /\ Len(e.draws) = 1)>>,
                       <<"C06.keyed", (ok /\ hout'.kind = "ok") =>
                            (StOK(half'[e.he], e.res.est) /\ StOK(half'[e.hd], e.res.dst))>>,
                       << PC(e.exp) \o ".init", (ok /\ hout'.kind = "ok") =>
                            (StOK(half'[e.he], e.res.est) /\ StOK(half'[e.hd], e.res.dst))>> >>,
                    {"WorldServer", "WorldServer." \o e.exp} \cup
                    (IF hout'.kind = "ok" THEN {"WorldServer.accept"} ELSE {"WorldServer.reject"}),
                    e.res.kind # hout'.kind)

\* a long call on a vanilla / tbc half is checked with the per-position relation (linear in the length)
LongCall(hf, data) == hf.exp # "wrath" /\ Len(data) > 1024
TrCall ==
    /\ IsEv("Call")
    /\ LET e == E
           hf == half[e.h]
           p == PC(hf.exp) IN
       IF ImplPanic(e) THEN UNCHANGED tvars /\ DoneK(<< <<"C14.total", FALSE>> >>, {"Call"}, TRUE)
       ELSE IF LongCall(hf, e.data)
       THEN LET okLen == Len(e.res.out) = Len(e.data)
                cph == IF hf.dir = "enc" THEN e.res.out ELSE e.data IN
            /\ half' = [half EXCEPT ![e.h].st = After(hf.key, hf.st, cph)]
            /\ hout' = [kind |-> "ok"]
            /\ Done(<< << p \o ".bytes", okLen /\ (IF hf.dir = "enc" THEN EncRel(hf.key, hf.st, e.data, e.res.out)
                                                   ELSE DecRel(hf.key, hf.st, e.data, e.res.out))>>,
                       << p \o ".state", StOK(half'[e.h], e.st)>>,
                       <<"C12.indep", HasF(e, "ref") => e.res.out = e.ref>> >>,
                    {"Call", "Call." \o hf.exp \o "." \o hf.dir, "Call.via." \o e.via, "Call.longerThanKey", "Call.over1024"}
                    \cup (IF Len(e.data) > 65536 THEN {"Call.over65536"} ELSE {}))
       ELSE /\ Call(e.h, e.data)
            /\ Done(<< << p \o ".bytes", e.res.out = hout'.out>>,
                       << p \o ".state", StOK(half'[e.h], e.st)>>,
                       <<"C12.indep", HasF(e, "ref") => e.res.out = e.ref>> >>,
                    {"Call", "Call." \o hf.exp \o "." \o hf.dir, "Call.via." \o e.via}
                    \cup (IF Len(e.data) = 0 THEN {"Call.empty"} ELSE {})
                    \cup (IF Len(e.data) > 65536 THEN {"Call.over65536"} ELSE {})
                    \cup (IF Len(e.data) > Len(hf.key) /\ hf.exp # "wrath" THEN {"Call.longerThanKey"} ELSE {}))

\* raw reference recorded from the real code on a clone of the same state
RawAgree(e) == HasF(e.raw, "out") => (e.res.out = e.raw.out /\ e.st = e.raw.st)

TrEncHdr ==
    /\ IsEv("EncHdr")
    /\ LET e == E
           hf == half[e.h]
           p == PC(hf.exp) IN
       IF ImplPanic(e) THEN UNCHANGED tvars /\ DoneK(<< <<"C14.total", FALSE>> >>, {"EncHdr"}, TRUE)
       ELSE /\ EncHeader(e.h, e.kind, e.size, e.opcode)
            /\ Done(<< <<"C11.wire", e.wire = hout'.wire>>,
                       <<"C11.agree", RawAgree(e)>>,
                       \* through the COMBINED object: the same as the raw operation on (a clone of) the sending half alone
                       <<"C12.indep", e.via = "combined" => RawAgree(e)>>,
                       <<"C10.length", (hf.exp = "wrath" /\ e.kind = "server") =>
                            Len(e.res.out) = (IF e.size <= 32767 THEN 4 ELSE 5)>>,
                       << p \o ".bytes", e.res.out = hout'.out>>,
                       << p \o ".state", StOK(half'[e.h], e.st)>> >>,
                    {"EncHdr", "EncHdr." \o hf.exp \o "." \o e.kind, "via." \o e.via}
                    \cup (IF Len(hout'.wire) = 5 THEN {"EncHdr.wrath.long"} ELSE {}))

SentOK(e, hdr) == HasF(e.sent, "size") =>
                     (hdr.size = e.sent.size /\
                      (IF e.kind = "client" THEN hdr.opcode = e.sent.opcode
                       ELSE U32LEsmall(hdr.opcode) = e.sent.opcode))

TrDecHdr ==
    /\ IsEv("DecHdr")
    /\ LET e == E
           hf == half[e.h]
           p == PC(hf.exp) IN
       IF ImplPanic(e) THEN UNCHANGED tvars /\ DoneK(<< <<"C14.total", FALSE>> >>, {"DecHdr"}, TRUE)
       ELSE /\ DecHeader(e.h, e.kind, e.bytes)
            /\ Done(<< <<"C11.agree", HasF(e.raw, "out") =>
                            (e.st = e.raw.st /\ e.res.header =
                               (IF e.kind = "client" THEN ParseClient(e.raw.out) ELSE ParseServer(e.raw.out)))>>,
                       <<"C11.roundtrip", SentOK(e, e.res.header)>>,
                       \* through the COMBINED object: the same as the raw operation on (a clone of) the receiving half alone
                       <<"C12.indep", (e.via = "combined" /\ HasF(e.raw, "out")) =>
                            (e.st = e.raw.st /\ e.res.header =
                               (IF e.kind = "client" THEN ParseClient(e.raw.out) ELSE ParseServer(e.raw.out)))>>,
                       << p \o ".bytes", e.res.header = hout'.header>>,
                       << p \o ".state", StOK(half'[e.h], e.st)>> >>,
                    {"DecHdr", "DecHdr." \o hf.exp \o "." \o e.kind, "via." \o e.via})

RECURSIVE ScriptBytes(_)
ScriptBytes(sc) == IF Len(sc) = 0 THEN 0
                   ELSE (IF Head(sc).t = "data" THEN Len(Head(sc).b) ELSE 0) + ScriptBytes(Tail(sc))

SentSrv(e, hdr) == HasF(e.sent, "size") => (hdr.size = e.sent.size /\ U32LEsmall(hdr.opcode) = e.sent.opcode)

TrWrathAttempt ==
    /\ IsEv("WrathAttempt")
    /\ LET e == E IN
       IF ImplPanic(e) THEN UNCHANGED tvars /\ DoneK(<< <<"C14.total", FALSE>> >>, {"WrathAttempt"}, TRUE)
       ELSE /\ WrathAttemptHdr(e.h, e.bytes)
            /\ Done(<< <<"C10.variant", e.res.kind = hout'.kind>>,
                       <<"C10.marker", HasF(e.raw, "out") => ((e.res.kind = "need5") = Marker(e.raw.out[1]))>>,
                       <<"C10.sentLen", HasF(e.sent, "size") => ((e.res.kind = "need5") = (e.sent.size > 32767))>>,
                       <<"C10.roundtrip", e.res.kind = "ok" => SentSrv(e, e.res.header)>>,
                       <<"C10.header", (e.res.kind = "ok" /\ hout'.kind = "ok") => e.res.header = hout'.header>>,
                       <<"C11.agree", HasF(e.raw, "out") =>
                            ((HasF(e.st, "S") /\ HasF(e.st, "i") /\ HasF(e.st, "j")) =>
                               (e.st.S = e.raw.st.S /\ e.st.i = e.raw.st.i /\ e.st.j = e.raw.st.j))>>,
                       <<"C10.stash", hout'.kind = "need5" => StashOK(half'[e.h], e.st)>>,
                       <<"C12.clone", HasF(e, "clone") =>
                            (e.res.kind = hout'.kind /\ (e.res.kind = "ok" => (e.res.header = hout'.header /\ SentSrv(e, e.res.header))))>>,
                       <<"C09.state", StOK(half'[e.h], e.st)>> >>,
                    {"WrathAttempt", "via." \o e.via} \cup (IF hout'.kind = "need5" THEN {"WrathAttempt.need5"} ELSE {"WrathAttempt.short"}))

TrWrathComplete ==
    /\ IsEv("WrathComplete")
    /\ LET e == E IN
       IF ImplPanic(e) THEN UNCHANGED tvars /\ DoneK(<< <<"C14.total", FALSE>> >>, {"WrathComplete"}, TRUE)
       ELSE /\ WrathCompleteHdr(e.h, e.byte)
            /\ Done(<< <<"C10.roundtrip", SentSrv(e, e.res.header)>>,
                       <<"C10.header", e.res.header = hout'.header>>,
                       <<"C12.clone", HasF(e, "clone") => (e.res.header = hout'.header /\ SentSrv(e, e.res.header))>>,
                       <<"C09.state", StOK(half'[e.h], e.st)>> >>,
                    {"WrathComplete", "via." \o e.via})

TrReadHdr ==
    /\ IsEv("ReadHdr")
    /\ LET e == E
           hf == half[e.h]
           p == PC(hf.exp)
           wrathSrv == hf.exp = "wrath" /\ e.kind = "server" IN
       IF ImplPanic(e) THEN UNCHANGED tvars /\ DoneK(<< <<"C14.total", FALSE>> >>, {"ReadHdr"}, TRUE)
       ELSE /\ (IF wrathSrv THEN WrathReadHeader(e.h, e.script) ELSE ReadHeader(e.h, e.kind, e.script))
            /\ LET pending == hout'.kind = "err" /\ HasF(hout', "pending") IN
               Done(<< <<"C11.readResult", e.res.kind = hout'.kind>>,
                       <<"C11.errorKind", (e.res.kind = "err" /\ hout'.kind = "err") => e.res.io = hout'.io>>,
                       <<"C11.untouched", (hout'.kind = "err" /\ ~pending) => e.same>>,
                       <<"C11.pendingState", pending => (e.st = e.afterAttempt)>>,
                       <<"C11.roundtrip", (e.res.kind = "ok" /\ hout'.kind = "ok") => SentOK(e, e.res.header)>>,
                       <<"C10.roundtrip", (wrathSrv /\ e.res.kind = "ok" /\ hout'.kind = "ok") => SentSrv(e, e.res.header)>>,
                       <<"C10.readResult", wrathSrv => e.res.kind = hout'.kind>>,
                       <<"C12.indep", HasF(e, "otherSame") => e.otherSame>>,     \* the sending direction of the object is as it was
                       \* a separate object that handles only this direction decodes the same header from the same bytes
                       <<"C12.indep", (HasF(e, "refHeader") /\ e.res.kind = "ok") => e.res.header = e.refHeader>>,
                       <<"C10.consumedExactly", (wrathSrv /\ hout'.kind = "ok") =>
                            e.unread = ScriptBytes(e.script) - hout'.used>>,
                       << p \o ".bytes", (e.res.kind = "ok" /\ hout'.kind = "ok") => e.res.header = hout'.header>>,
                       << p \o ".state", StOK(half'[e.h], e.st)>> >>,
                    {"ReadHdr", "ReadHdr." \o hf.exp \o "." \o e.kind, "via." \o e.via}
                    \cup (IF hout'.kind = "err" THEN {"ReadHdr.failed", "ReadHdr.failed." \o hout'.io} ELSE {"ReadHdr.ok"})
                    \cup (IF pending THEN {"ReadHdr.failedAtFifthByte"} ELSE {})
                    \cup (IF \E k \in 1..Len(e.script) : e.script[k].t = "intr" THEN {"ReadHdr.interrupted"} ELSE {})
                    \cup (IF Len(e.script) > 2 THEN {"ReadHdr.fragmented"} ELSE {}))

TrWriteHdr ==
    /\ IsEv("WriteHdr")
    /\ LET e == E
           hf == half[e.h]
           p == PC(hf.exp) IN
       IF ImplPanic(e) THEN UNCHANGED tvars /\ DoneK(<< <<"C14.total", FALSE>> >>, {"WriteHdr"}, TRUE)
       ELSE /\ WriteHeader(e.h, e.kind, e.size, e.opcode, e.script)
            /\ Done(<< <<"C11.writeResult", e.res.kind = hout'.kind>>,
                       <<"C11.errorKind", (e.res.kind = "err" /\ hout'.kind = "err") => e.res.io = hout'.io>>,
                       <<"C11.agree", HasF(e.raw, "out") =>
                            (e.st = e.raw.st /\
                             e.delivered = SubSeq(e.raw.out, 1, Len(e.delivered)) /\
                             (e.res.kind = "ok" => e.delivered = e.raw.out))>>,
                       <<"C11.wire", e.wire = WireOf(hf, e.kind, e.size, e.opcode)>>,
                       <<"C11.delivered", Len(e.delivered) = Len(hout'.delivered)>>,
                       \* the RECEIVING direction of the same object is as it was (recorded before and after the call)
                       <<"C12.indep", HasF(e, "otherSame") => e.otherSame>>,
                       << p \o ".bytes", e.delivered = hout'.delivered>>,
                       << p \o ".state", StOK(half'[e.h], e.st)>> >>,
                    {"WriteHdr", "WriteHdr." \o hf.exp \o "." \o e.kind, "via." \o e.via}
                    \cup (IF hout'.kind = "err" THEN {"WriteHdr.failed", "WriteHdr.failed." \o hout'.io} ELSE {"WriteHdr.ok"}))

\* the public from_array parsers (beyond the listed properties: tags EXT.*)
TrParseHdr ==
    /\ IsEv("ParseHdr")
    /\ LET e == E
           b4 == SubSeq(e.bytes, 1, 4)
           b5 == SubSeq(e.bytes, 1, 5) IN
       /\ UNCHANGED tvars
       /\ IF HasF(e, "res") THEN DonePure(<< <<"C14.total", FALSE>> >>, {"ParseHdr"}) ELSE
          DonePure(<< <<"EXT.parseServer", [size |-> e.server.size, opcode |-> e.server.opcode] = ParseServer(b4)>>,
                      <<"EXT.parseClient", [size |-> e.client.size, opcode |-> e.client.opcode] = ParseClient(e.bytes)>>,
                      <<"EXT.parseSmall", [size |-> e.small.size, opcode |-> e.small.opcode] = DecodeSmall(b4)>>,
                      <<"EXT.parseLarge", [size |-> e.large.size, opcode |-> e.large.opcode] = DecodeLarge(b5)>> >>,
                   {"ParseHdr"})

TrSplit ==
    /\ IsEv("Split")
    /\ LET e == E IN
       /\ UNCHANGED tvars
       /\ Done(<< <<"C12.split", StOK(half[e.he], e.est) /\ StOK(half[e.hd], e.dst)>> >>, {"Split"})

TrUnsplit ==
    /\ IsEv("Unsplit")
    /\ LET e == E IN
       /\ Unsplit(e.he, e.hd)
       /\ Done(<< <<"C12.unsplitIff", e.res.kind = hout'.kind>>,
                  <<"C12.pairOf", e.pair[1] = (hout'.kind = "ok") /\ e.pair[2] = (hout'.kind = "ok")>>,
                  <<"C12.unsplitKeeps", e.res.kind = "ok" =>
                       (StOK(half[e.he], e.est) /\ StOK(half[e.hd], e.dst))>> >>,
               {"Unsplit"} \cup (IF hout'.kind = "ok" THEN {"Unsplit.ok"} ELSE {"Unsplit.refused"}))

TrCloneHalf ==
    /\ IsEv("CloneHalf")
    /\ CloneHalf(E.h, E.h2)
    /\ Done(<<>>, {"CloneHalf"})

TrDropHalf ==
    /\ IsEv("DropHalf")
    /\ DropHalf(E.h)
    /\ Done(<<>>, {"DropHalf"})

\* one implementation test per model transition: state (i, p) x all 256 input bytes
TrStateSweep ==
    /\ IsEv("StateSweep")
    /\ LET e == E
           key == CipherKey(e.exp, e.K)
           \* the state the harness BROUGHT the half into (position = bytes processed so far, carried byte = last
           \* ciphertext byte); the state the half SHOWS in its Debug output is compared when it is shown
           st == [i |-> e.cst.i, p |-> e.cst.p]
           shown == HasF(e.st, "i") /\ HasF(e.st, "p")
           p == PC(e.exp) IN
       /\ UNCHANGED tvars
       /\ DonePure(<< << p \o ".key", HasF(e.st, "key") => e.st.key = key>>,
                      << p \o ".stateRange", shown => (e.st.i \in 0..(Len(key) - 1) /\ e.st.p \in 0..255)>>,
                      << p \o ".state", shown => (e.st.i = st.i /\ e.st.p = st.p)>>,
                      << p \o ".transition",
                         \A x \in 0..255 :
                            LET s == IF e.dir = "enc" THEN EncStep(key, st, x) ELSE DecStep(key, st, x)
                            IN e.out[x + 1] = s.o /\ (HasF(e, "ni") => (e.ni[x + 1] = s.i /\ e.np[x + 1] = s.p))>> >>,
                   {"StateSweep", "StateSweep." \o e.exp \o "." \o e.dir})

\* One call of tens of megabytes on a clone of a half against the SAME bytes fed to another clone in chunks: the stream does
\* not depend on how it is cut into calls (EncRun/DecRun are folds), so output (as digests) and final state agree; sampled
\* chunks of the chunked run are judged against the specification from the state they start in (StateChunk).
TrBigCall ==
    /\ IsEv("BigCall")
    /\ LET e == E
           p == PC(e.exp) IN
       /\ UNCHANGED tvars
       /\ IF ImplPanic(e) THEN DonePure(<< <<"C14.total", FALSE>> >>, {"BigCall"}) ELSE
          DonePure(<< << p \o ".bigCall", e.dBig = e.dChunked /\ e.stBig = e.stChunked>> >>,
                   {"BigCall", "BigCall." \o e.exp \o "." \o e.dir})

\* More than 2^32 bytes through ONE half (Vanilla / TBC): the position is defined modulo the key length, which does not
\* divide 2^32, so the state the half shows at the end is (bytes mod key length, last ciphertext byte); the calls around
\* byte number 2^32 are judged by the StateChunk events that follow.
TrPast32 ==
    /\ IsEv("Past32")
    /\ LET e == E
           p == PC(e.exp) IN
       /\ UNCHANGED tvars
       /\ IF ImplPanic(e) THEN DonePure(<< <<"C14.total", FALSE>>, << p \o ".past32", FALSE>> >>, {"Past32"}) ELSE
          DonePure(<< << p \o ".past32", (HasF(e.st, "i") /\ HasF(e.st, "p")) => (e.st.i = e.want.i /\ e.st.p = e.want.p)>> >>,
                   {"Past32", "Past32." \o e.exp \o "." \o e.dir})

TrStateChunk ==
    /\ IsEv("StateChunk")
    /\ LET e == E
           key == CipherKey(e.exp, e.K)
           st == [i |-> e.cst.i, p |-> e.cst.p]
           p == PC(e.exp) IN
       /\ UNCHANGED tvars
       /\ DonePure(<< << p \o ".bytes", IF e.dir = "enc" THEN EncRel(key, st, e.data, e.out) ELSE DecRel(key, st, e.data, e.out)>> >>,
                   {"StateChunk"})

\* exhaustive size sweep: per block of 4096 sizes the SHA-1 over (plaintext header, header decoded by
\* the read path, header decoded by the two-step path, consumed-exactly flag), recomputed from the codec
SweepBlock(op, blk) ==
    LET one(size) == LET w == EncodeServer(size, op)
                         d == U24BE(size) \o U16LE(op)
                     IN w \o d \o d \o <<1>>
    IN SHA1(FlattenSeq([k \in 1..4096 |-> one(blk * 4096 + k - 1)]))

TrSizeSweep ==
    /\ IsEv("SizeSweep")
    /\ LET e == E IN
       /\ UNCHANGED tvars
       /\ DonePure(<< <<"C14.total", ~e.panicked>>,
                      <<"C10.sizeBlock", e.digest = SweepBlock(e.opcode, e.block)>> >>,
                   {"SizeSweep"})

Next ==
    \/ TrReset \/ SkipBad(tvars)
    \/ TrWorldClient \/ TrWorldServer \/ TrCall \/ TrEncHdr \/ TrDecHdr
    \/ TrWrathAttempt \/ TrWrathComplete \/ TrReadHdr \/ TrWriteHdr \/ TrBigCall \/ TrStateChunk \/ TrPast32
    \/ TrParseHdr \/ TrSplit \/ TrUnsplit \/ TrCloneHalf \/ TrDropHalf \/ TrStateSweep \/ TrSizeSweep

Spec == Init /\ [][Next]_vars

Inv == HTypeOK
=============================================================================
