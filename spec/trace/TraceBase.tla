------------------------------ MODULE TraceBase ------------------------------
(***************************************************************************)
(* Common machinery of the trace specifications.                           *)
(*                                                                         *)
(* A trace is an NDJSON file (environment variable TRACE), one event per   *)
(* line, recorded by the harness from the real wow_srp code.  The trace    *)
(* specification is a monitor that reuses the actions of the design        *)
(* specification: for the event at position l it takes the corresponding   *)
(* spec action with the logged arguments and draws, and compares the       *)
(* logged outcome with the action's outcome through a list of tagged       *)
(* conjuncts <<"Cxx.name", boolean>>.  Failed tags are printed at once     *)
(* (<<"VIOL", line, event, tags>>) and counted in TLC register 1; the      *)
(* session is then marked diverged and skipped up to the next "reset"      *)
(* event, so the rest of the trace is still validated.  Acceptance is the  *)
(* POSTCONDITION "every line consumed and no violation" (constant level:   *)
(* it reads TLC's diameter and register 1), which needs -workers 1.        *)
(***************************************************************************)
EXTENDS Naturals, Sequences, FiniteSets, TLC, TLCExt, Json, IOUtils

Rec == ndJsonDeserialize(IOEnv.TRACE)

VARIABLES l,      \* position of the next event
          bad,    \* the current scenario diverged from the specification
          stat    \* counters: events per kind, classes reached (evidence)

bvars == <<l, bad, stat>>

E == Rec[l]
IsEv(name) == l <= Len(Rec) /\ ~bad /\ E.ev = name

Bump(s, keys) == [k \in (DOMAIN s) \cup keys |->
                    (IF k \in DOMAIN s THEN s[k] ELSE 0) + (IF k \in keys THEN 1 ELSE 0)]

Fails(ts) == {ts[i][1] : i \in {j \in 1..Len(ts) : ~ts[j][2]}}

\* (IF, not \/ : in an action TLC would explore both disjuncts)
Report(f) == IF f = {} THEN TRUE ELSE PrintT(<<"VIOL", l, E.ev, f>>) /\ TLCSet(1, TLCGet(1) + 1)

Finish(s) == IF l + 1 <= Len(Rec) THEN TRUE ELSE PrintT(<<"STATS", ToJson(s)>>)

\* consume the event: report failed tags, count, advance.  The model always follows the SPECIFICATION's
\* outcome, so value mismatches never stop validation; only when the implementation's control flow left
\* the specification's (diverged: different result kind, a panic, a missing draw) is the rest of the
\* scenario skipped up to the next reset - the objects the harness went on with no longer correspond.
DoneK(ts, keys, diverged) ==
    LET f == Fails(ts)
        s == Bump(stat, keys \cup {"events"} \cup (IF f = {} THEN {} ELSE {"violations"}))
    IN /\ Report(f)
       /\ bad' = diverged
       /\ stat' = s
       /\ l' = l + 1
       /\ Finish(s)
Done(ts, keys) == DoneK(ts, keys, FALSE)

\* the same for an event of a stateless (pure) function: a failure does not poison later events
DonePure(ts, keys) ==
    LET f == Fails(ts)
        s == Bump(stat, keys \cup {"events"} \cup (IF f = {} THEN {} ELSE {"violations"}))
    IN /\ Report(f)
       /\ bad' = bad
       /\ stat' = s
       /\ l' = l + 1
       /\ Finish(s)

BaseInit == l = 1 /\ bad = FALSE /\ stat = [events |-> 0] /\ TLCSet(1, 0)

\* a diverged scenario is skipped up to the next reset
SkipBad(uvars) ==
    /\ l <= Len(Rec) /\ bad /\ E.ev # "reset"
    /\ l' = l + 1 /\ bad' = bad
    /\ stat' = Bump(stat, {"skipped"})
    /\ Finish(stat')
    /\ UNCHANGED uvars

Accepted == /\ TLCGet("stats").diameter - 1 = Len(Rec)
            /\ TLCGet(1) = 0
PostCondition ==
    IF Accepted THEN TRUE
    ELSE /\ PrintT(<<"REJECTED", "consumed", TLCGet("stats").diameter - 1, "of", Len(Rec),
                     "violations", TLCGet(1)>>)
         /\ (TLCGet("stats").diameter - 1 = Len(Rec)
               \/ PrintT(<<"STUCK-AT", TLCGet("stats").diameter, Rec[TLCGet("stats").diameter]>>))
         /\ FALSE

\* draws logged with an event
DrawOK(e, k, site, len) == /\ Len(e.draws) >= k
                           /\ e.draws[k].site = site
                           /\ Len(e.draws[k].used) = len
NoDraws(e) == Len(e.draws) = 0
\* index of the first logged draw at a site (0 if none): the model can still follow the specification when the
\* implementation drew more than it should (the surplus is reported by the C15.draw tag)
DrawIdx(e, site, len) ==
    LET idx == {k \in 1..Len(e.draws) : e.draws[k].site = site /\ Len(e.draws[k].used) = len}
    IN IF idx = {} THEN 0 ELSE CHOOSE k \in idx : \A j \in idx : k <= j
=============================================================================
