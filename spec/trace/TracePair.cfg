SPECIFICATION Spec
POSTCONDITION PostCondition
CHECK_DEADLOCK FALSE
