------------------------------ MODULE TracePair ------------------------------
(***************************************************************************)
(* C19: the same scenario set executed by two builds of wow_srp (pure-Rust *)
(* integers, GMP-based integers) with identical injected randomness.       *)
(* Within every scenario (reset-delimited) event i of one trace must equal *)
(* event i of the other, field by field: arguments, results, error kinds,  *)
(* accept / reject decisions, the values drawn and used.  (The bytes the   *)
(* real generator produced before injection and the text of a panic        *)
(* message are not part of the API.)  After the first difference in a      *)
(* scenario both traces are skipped to their next reset, so every other    *)
(* scenario is still compared.                                             *)
(***************************************************************************)
EXTENDS Naturals, Sequences, FiniteSets, TLC, TLCExt, Json, IOUtils

RecA == ndJsonDeserialize(IOEnv.TRACE)
RecB == ndJsonDeserialize(IOEnv.TRACE2)

VARIABLES la, lb, bad, stat
vars == <<la, lb, bad, stat>>

Bump(s, keys) == [k \in (DOMAIN s) \cup keys |->
                    (IF k \in DOMAIN s THEN s[k] ELSE 0) + (IF k \in keys THEN 1 ELSE 0)]

Init == la = 1 /\ lb = 1 /\ bad = FALSE /\ stat = [events |-> 0] /\ TLCSet(1, 0) /\ TLCSet(2, 0)

EndA == la > Len(RecA)
EndB == lb > Len(RecB)
AtResetA == ~EndA /\ RecA[la].ev = "reset"
AtResetB == ~EndB /\ RecB[lb].ev = "reset"

NormRes(r) == IF "kind" \in DOMAIN r /\ r.kind = "panic" THEN [kind |-> "panic"] ELSE r
NormEv(e) ==
    LET e1 == IF "draws" \in DOMAIN e
              THEN [e EXCEPT !.draws = [k \in 1..Len(e.draws) |-> [site |-> e.draws[k].site, used |-> e.draws[k].used]]]
              ELSE e
    IN IF "res" \in DOMAIN e1 THEN [e1 EXCEPT !.res = NormRes(e1.res)] ELSE e1

Report(tag) == PrintT(<<"VIOL", la, IF EndA THEN "end" ELSE RecA[la].ev, {tag}>>) /\ TLCSet(1, TLCGet(1) + 1)
Finish(a, b, s) == IF a > Len(RecA) /\ b > Len(RecB)
                   THEN PrintT(<<"STATS", ToJson(s)>>) /\ TLCSet(2, 1) ELSE TRUE

\* both at a reset (or both at the end): start the next scenario
Sync ==
    /\ AtResetA /\ AtResetB
    /\ la' = la + 1 /\ lb' = lb + 1 /\ bad' = FALSE
    /\ stat' = Bump(stat, {"scenarios"})
    /\ Finish(la', lb', stat')

Compare ==
    /\ ~bad /\ ~EndA /\ ~EndB /\ ~AtResetA /\ ~AtResetB
    /\ IF NormEv(RecA[la]) = NormEv(RecB[lb])
       THEN /\ bad' = FALSE /\ stat' = Bump(stat, {"events", RecA[la].ev})
       ELSE /\ Report("C19.same") /\ bad' = TRUE /\ stat' = Bump(stat, {"events", "violations"})
    /\ la' = la + 1 /\ lb' = lb + 1
    /\ Finish(la', lb', stat')

\* one scenario is longer in one trace than in the other
Uneven ==
    /\ ~bad
    /\ \/ (~EndA /\ ~AtResetA /\ (EndB \/ AtResetB))
       \/ (~EndB /\ ~AtResetB /\ (EndA \/ AtResetA))
    /\ Report("C19.length") /\ bad' = TRUE
    /\ stat' = Bump(stat, {"violations"})
    /\ UNCHANGED <<la, lb>>

SkipA == /\ bad /\ ~EndA /\ ~AtResetA /\ la' = la + 1 /\ UNCHANGED <<lb, bad>>
         /\ stat' = Bump(stat, {"skipped"}) /\ Finish(la', lb, stat')
SkipB == /\ bad /\ (EndA \/ AtResetA) /\ ~EndB /\ ~AtResetB /\ lb' = lb + 1 /\ UNCHANGED <<la, bad>>
         /\ stat' = Bump(stat, {"skipped"}) /\ Finish(la, lb', stat')

Next == Sync \/ Compare \/ Uneven \/ SkipA \/ SkipB
Spec == Init /\ [][Next]_vars

PostCondition ==
    IF TLCGet(2) = 1 /\ TLCGet(1) = 0 THEN TRUE
    ELSE /\ PrintT(<<"REJECTED", "finished", TLCGet(2), "violations", TLCGet(1)>>)
         /\ (TLCGet(2) = 1 \/ PrintT(<<"STUCK-AT", TLCGet("stats").diameter>>))
         /\ FALSE
=============================================================================
