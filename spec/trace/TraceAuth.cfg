SPECIFICATION Spec
INVARIANT Inv
POSTCONDITION PostCondition
CHECK_DEADLOCK FALSE
