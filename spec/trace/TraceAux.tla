------------------------------ MODULE TraceAux ------------------------------
(***************************************************************************)
(* Trace specification for the stateless parts of wow_srp: credential      *)
(* strings (C13), random draws (C15), PIN (C16), integrity (C17), matrix   *)
(* card (C18).  Every event is a call of a pure function (or a batch of    *)
(* draws); the expected value is computed from NormString, Pin, Integrity, *)
(* MatrixCard and Srp6.                                                    *)
(***************************************************************************)
EXTENDS NormString, Pin, Integrity, MatrixCard, Srp6, Errors, SequencesExt, TraceBase

vars == <<l, bad, stat>>
Init == BaseInit

HasF(r, f) == f \in DOMAIN r
SeqToSet(s) == {s[k] : k \in 1..Len(s)}

TrReset ==
    /\ l <= Len(Rec) /\ E.ev = "reset"
    /\ bad' = FALSE /\ l' = l + 1
    /\ stat' = Bump(stat, {"scenarios"})
    /\ Finish(stat')

---------------------------------------------------------------------------
(* C13 *)
NormOK(r, exp) ==
    /\ r.kind = exp.kind
    /\ (r.kind = "ok" => (r.text = exp.text /\ r.display = exp.text))
    /\ (r.kind = "errChar" => r.cp = exp.cp)

TrNorm ==
    /\ IsEv("Norm")
    /\ LET e == E
           exp == Normalize(e.cps)
           n == Len(e.res) IN
       DonePure(<< <<"C13.total", \A k \in 1..n : e.res[k].kind # "panic">>,
                   <<"C13.accept", \A k \in 1..n : (e.res[k].kind = "ok") = (exp.kind = "ok")>>,
                   <<"C13.result", \A k \in 1..n : e.res[k].kind # "panic" => NormOK(e.res[k], exp)>>,
                   <<"C13.ctorsAgree", \A k \in 1..n : e.res[k] = e.res[1]>>,
                   <<"EXT.display", \A k \in 1..n :
                        /\ (e.res[k].kind = "errLen" => e.res[k].etext = TooLongText)
                        /\ (e.res[k].kind = "errChar" => e.res[k].etext = NotAllowedText(e.res[k].cp))>> >>,
                {"Norm", "Norm." \o exp.kind}
                \cup (IF Utf8Total(e.cps) \in {16, 17} THEN {"Norm.atLengthLimit"} ELSE {})
                \cup (IF \E k \in 1..Len(e.cps) : e.cps[k] > 127 THEN {"Norm.multibyte"} ELSE {}))

TrNormCmp ==
    /\ IsEv("NormCmp")
    /\ LET e == E
           na == Text(e.a)
           nb == Text(e.b) IN
       \* (the harness compares only strings the library ACCEPTED; one the specification rejects must not get here)
       IF ~(IsValid(e.a) /\ IsValid(e.b)) THEN DonePure(<< <<"C13.result", FALSE>> >>, {"NormCmp"}) ELSE
       DonePure(<< <<"C13.eq", e.res.eq = (na = nb) /\ (HasF(e.res, "ne") => e.res.ne = (na # nb))>>,
                   \* the comparison OPERATORS agree with the ordering (each may be overridden separately)
                   <<"C13.ord", HasF(e.res, "lt") => (/\ e.res.lt = (LexCmp(na, nb) < 0) /\ e.res.le = (LexCmp(na, nb) <= 0)
                                                      /\ e.res.gt = (LexCmp(na, nb) > 0) /\ e.res.ge = (LexCmp(na, nb) >= 0))>>,
                   <<"C13.ord", e.res.ord = LexCmp(na, nb) /\ e.res.pord = LexCmp(na, nb)>>,
                   <<"C13.hash", (na = nb) => e.res.hashEq>>,
                   <<"C13.clone", e.res.cloneEq>>,
                   <<"C13.idempotent", e.res.renorm.kind = "ok" /\ e.res.renorm.text = na>> >>,
                {"NormCmp"} \cup (IF na = nb THEN {"NormCmp.equal"} ELSE {"NormCmp.different"}))

\* outcome code of the sweep string 'a'^pos . c . 'z'^suffix
SweepCode(pos, suffix, c) ==
    LET r == Normalize([k \in 1..pos |-> 97] \o <<c>> \o [k \in 1..suffix |-> 122])
    IN IF r.kind = "errLen" THEN 3
       ELSE IF r.kind = "errChar" THEN (IF r.cp = c THEN 1 ELSE 2)
       ELSE IF /\ Len(r.text) = pos + 1 + suffix
               /\ \A k \in 1..pos : r.text[k] = 65
               /\ \A k \in (pos + 2)..(pos + 1 + suffix) : r.text[k] = 90
            THEN 1000 + r.text[pos + 1] ELSE 999
\* the specification's outcome is constant between these scalar values (it depends only on
\* Allowed(c), Upper(c) and Utf8Len(c)); accepted scalars are reported one by one
Boundaries == {32, 127, 128, 2048, 55296, 57344, 65536}
RunOK(pos, suffix, run) ==
    LET s == run[1]  t == run[2]  code == run[3] IN
    /\ s <= t
    /\ SweepCode(pos, suffix, s) = code /\ SweepCode(pos, suffix, t) = code
    /\ (code >= 1000 => s = t)
    /\ \A b \in Boundaries : (s < b /\ b <= t) =>       \* the run may cross a boundary only if the outcome does not change there
           (SweepCode(pos, suffix, b) = code /\ SweepCode(pos, suffix, b - 1) = code)
Contiguous(runs) ==
    /\ runs[1][1] = 0 /\ runs[Len(runs)][2] = 1114111
    /\ \A k \in 1..(Len(runs) - 1) :
          \/ runs[k + 1][1] = runs[k][2] + 1
          \/ (runs[k][2] = 55295 /\ runs[k + 1][1] = 57344)      \* the surrogate gap holds no scalar values

TrNormSweep ==
    /\ IsEv("NormSweep")
    /\ LET e == E IN
       DonePure(<< <<"C13.sweepCovers", Contiguous(e.runs)>>,
                   <<"C13.sweep", \A k \in 1..Len(e.runs) : RunOK(e.pos, e.suffix, e.runs[k])>>,
                   <<"C13.total", \A k \in 1..Len(e.runs) : e.runs[k][3] # 4>> >>,
                {"NormSweep", "NormSweep.allScalarsAtOnePosition"})

---------------------------------------------------------------------------
(* C16 *)
TrPin ==
    /\ IsEv("Pin")
    /\ LET e == E
           has == HasHash(e.pin) IN
       DonePure(<< <<"C16.total", e.res.kind # "panic">>,
                   <<"C16.exists", e.res.kind # "panic" => ((e.res.kind = "some") = has)>>,
                   <<"C16.hash", (e.res.kind = "some" /\ has) => e.res.hash = PinHash(e.pin, e.seed, e.ssalt, e.csalt)>>,
                   <<"C16.specPerm", IsPerm10(Layout(e.seed))>> >>,
                {"Pin"} \cup (IF has THEN {"Pin.digits" \o ToString(Len(Digits(e.pin)))} ELSE {"Pin.noHash"}))

TrPinVerify ==
    /\ IsEv("PinVerify")
    /\ LET e == E
           exp == PinVerify(e.pin, e.seed, e.ssalt, e.csalt, e.hash) IN
       DonePure(<< <<"C16.total", e.res.kind # "panic">>,
                   <<"C16.verify", e.res.kind = "bool" => e.res.ok = exp>> >>,
                {"PinVerify"} \cup (IF exp THEN {"PinVerify.true"} ELSE {"PinVerify.false"}))

AllDistinctPin == <<21, 182, 0, 61>>     \* 1023456789 little-endian
TwoTo32 == <<0, 0, 0, 0, 1>>
TrPinSweep ==
    /\ IsEv("PinSweep")
    /\ LET e == E
           ss == Fill(16, 7)
           cs == Fill(16, 9)
           seedOf(sd) == BnAdd(Nat2LE(sd), e.offset)
           inRange(sd) == BnCmp(seedOf(sd), TwoTo32) < 0
           hashes == [k \in 1..(e.to - e.from + 1) |->
                        IF inRange(e.from + k - 1)
                        THEN PinHash(AllDistinctPin, Pad(seedOf(e.from + k - 1), 4), ss, cs) ELSE <<>>] IN
       DonePure(<< <<"C16.layoutBlock", e.digest = SHA1(FlattenSeq(hashes))>>,
                   <<"C16.specModFactorial",
                        \A sd \in {e.from, e.to, (e.from + e.to) \div 2} :
                            inRange(sd) => (Layout(Pad(seedOf(sd), 4)) = LayoutNat(sd) /\ IsPerm10(LayoutNat(sd)))>> >>,
                {"PinSweep"})

---------------------------------------------------------------------------
(* C17 *)
TrIntegrity ==
    /\ IsEv("Integrity")
    /\ LET e == E IN
       DonePure(<< <<"C17.total", e.res.kind # "panic">>,
                   <<"C17.hash", e.res.kind = "ok" => e.res.hash = IntegrityCheck(e.files, e.salt, e.key)>> >>,
                {"Integrity", "Integrity." \o e.fn})

TrIntegrityReconnect ==
    /\ IsEv("IntegrityReconnect")
    /\ LET e == E IN
       DonePure(<< <<"C17.reconnect", e.res.kind = "ok" /\ e.res.hash = ReconnectCheck(e.salt)>> >>, {"IntegrityReconnect"})

---------------------------------------------------------------------------
(* C18 *)
TrCardCell ==
    /\ IsEv("CardCell")
    /\ LET e == E
           exp == Cell(e.d, e.w, e.data, e.x, e.y) IN
       DonePure(<< <<"C18.total", e.res.kind # "panic">>,
                   <<"C18.cell", e.res.kind = "ok" => e.res.cell = exp>>,
                   <<"C18.printed", e.printedAt = exp /\ e.printedCount = e.w * e.h>>,
                   <<"C18.accessors", e.acc.d = e.d /\ e.acc.h = e.h /\ e.acc.w = e.w>> >>,
                {"CardCell"})

\* the printer as an iterator: skip(k), step_by(max(k,1)), nth(k) followed by the rest, count, last, size_hint after one next
TrCardPrint ==
    /\ IsEv("CardPrint")
    /\ LET e == E
           N == e.w * e.h
           cells == [i \in 1..N |-> SubSeq(e.data, (i - 1) * e.d + 1, i * e.d)]
           from(a) == IF a > N THEN <<>> ELSE SubSeq(cells, a, N)
           s == IF e.k = 0 THEN 1 ELSE e.k
           stepped == [j \in 1..((N + s - 1) \div s) |-> cells[(j - 1) * s + 1]] IN
       IF e.res.kind = "panic" THEN DonePure(<< <<"C18.total", FALSE>> >>, {"CardPrint"}) ELSE
       DonePure(<< <<"C18.printSkip", e.skip = from(e.k + 1)>>,
                   <<"C18.printStep", e.step = stepped>>,
                   <<"C18.printNth", e.nth = from(e.k + 1)>>,
                   <<"C18.printCount", e.count = N>>,
                   <<"C18.printLast", e.last = (IF N = 0 THEN <<>> ELSE <<cells[N]>>)>>,
                   <<"C18.printHint", e.hintLo <= N - 1 /\ (e.hintHi = -1 \/ e.hintHi >= N - 1)>> >>,
                {"CardPrint"})

\* (\E cs \in {..} binds the coordinates as a value: a LET definition would be re-evaluated at every use)
TrCardSize ==
    /\ IsEv("CardSize")
    /\ LET e == E IN
       DonePure(<< <<"C18.size", e.size = e.d * e.h * e.w /\ e.newLen = e.size>>,
                   <<"C18.fromData", e.acceptsExact /\ ~e.acceptsShort /\ ~e.acceptsLong>> >>, {"CardSize"})

TrCardCoord ==
    /\ IsEv("CardCoord")
    /\ \E cs \in {Coordinates(E.w, E.h, E.count, E.seed)} :
       LET e == E
           expAt(r) == IF r >= e.count THEN [none |-> TRUE] ELSE [x |-> cs[r + 1] % e.w, y |-> cs[r + 1] \div e.w]
           n == Len(e.rounds) IN
       DonePure(<< <<"C18.total", \A k \in 1..n : e.res[k].kind # "panic">>,
                   <<"C18.coord", \A k \in 1..n : e.res[k].kind # "panic" =>
                        IF HasF(expAt(e.rounds[k]), "none") THEN e.res[k].kind = "none"
                        ELSE e.res[k].kind = "some" /\ e.res[k].x = expAt(e.rounds[k]).x /\ e.res[k].y = expAt(e.rounds[k]).y>>,
                   <<"C18.specCoord", expAt(e.rounds[1]) = Coord(e.w, e.h, e.count, e.seed, e.rounds[1])>>,
                   <<"C18.specDistinct", Cardinality(SeqToSet(cs)) = e.count /\ \A k \in 1..e.count : cs[k] < e.w * e.h>> >>,
                {"CardCoord"} \cup (IF \E k \in 1..n : e.rounds[k] >= e.count THEN {"CardCoord.outsideRange"} ELSE {}))

TrCardProof ==
    /\ IsEv("CardProof")
    /\ LET e == E IN
       DonePure(<< <<"C18.total", e.res.kind # "panic">>,
                   <<"C18.proof", e.res.kind = "ok" => e.res.proof = CardProof(e.seed, e.K, e.entered)>> >>,
                {"CardProof"})

TrCardVerify ==
    /\ IsEv("CardVerify")
    /\ LET e == E
           exp == CardVerify(e.d, e.w, e.h, e.data, e.count, e.seed, e.K, e.proof) IN
       DonePure(<< <<"C18.total", e.res.kind # "panic">>,
                   <<"C18.verify", e.res.kind = "bool" => e.res.ok = exp>>,
                   <<"C18.acceptsPrinted", e.note = "printed digits" => (exp /\ (e.res.kind = "bool" => e.res.ok))>> >>,
                {"CardVerify"} \cup (IF exp THEN {"CardVerify.accept"} ELSE {"CardVerify.reject"}))

---------------------------------------------------------------------------
(* C15: batches of draws.  obs = public observables, raw/used/sites = what the RNG tap saw. *)
Distinct(s) == Cardinality(SeqToSet(s)) = Len(s)
Collisions(s) == Len(s) - Cardinality(SeqToSet(s))
ByteVaries(s, m) == \A p \in 1..Len(s[1]) : Cardinality({s[k][p] : k \in 1..Len(s)}) >= m
MinDistinct(n) == IF n >= 2048 THEN 200 ELSE IF n >= 1024 THEN 150 ELSE IF n >= 256 THEN 100 ELSE 8
\* every bit of every byte position is set in between a quarter and three quarters of the draws
\* (n >= 256: more than 8 standard deviations from one half)
BitVaries(s) == \A p \in 1..Len(s[1]), bit \in 0..7 :
                   LET ones == Cardinality({k \in 1..Len(s) : (s[k][p] \div (2 ^ bit)) % 2 = 1})
                   IN 4 * ones >= Len(s) /\ 4 * ones <= 3 * Len(s)
\* no byte position is a copy of (or tied to) another one: two positions agree in at most 1/8 of the draws
\* (expected 1/256; for n >= 256 the bound is more than 20 standard deviations away)
NoInternalCopy(s) == \A p \in 1..Len(s[1]), q \in 1..Len(s[1]) :
                        p < q => 8 * Cardinality({k \in 1..Len(s) : s[k][p] = s[k][q]}) <= Len(s)
Slice(v, a, z) == SubSeq(v, a, z)

\* integer square root (largest r with r*r <= n), by bisection
RECURSIVE ISqrtBetween(_, _, _)
ISqrtBetween(n, lo, hi) == IF lo >= hi THEN lo
                           ELSE LET mid == (lo + hi + 1) \div 2
                                IN IF mid * mid <= n THEN ISqrtBetween(n, mid, hi) ELSE ISqrtBetween(n, lo, mid - 1)
ISqrt(n) == ISqrtBetween(n, 0, 46340)

TrDraws ==
    /\ IsEv("Draws")
    /\ LET e == E
           n == Len(e.obs)
           hooked == Len(e.raw)
           allSite(s) == \A k \in 1..Len(e.sites) : e.sites[k] = s
           sample == 1..(IF n < 48 THEN n ELSE 48) IN
       DonePure(
        IF e.site \in {"Salt", "IntegritySalt", "PinSalt", "MatrixSeed", "CloneRefresh"} THEN
          << <<"C15.noRepeat", Distinct(e.obs)>>,
             <<"C15.byteVaries", ByteVaries(e.obs, MinDistinct(n))>>,
             <<"C15.bitVaries", BitVaries(e.obs)>>,
             <<"C15.noInternalCopy", NoInternalCopy(e.obs)>>,
             <<"C15.drawHappened", e.site = "Salt" => (hooked = n /\ allSite("Salt"))>>,
             <<"C15.usedIsDrawn", e.site = "Salt" => \A k \in 1..hooked : e.obs[k] = e.used[k] /\ e.used[k] = e.raw[k]>> >>
        ELSE IF e.site = "PrivateKey" THEN
          << <<"C15.drawHappened", hooked = n /\ allSite("PrivateKey")>>,
             <<"C15.noRepeat", Distinct(e.obs) /\ Distinct(e.raw)>>,
             <<"C15.byteVaries", ByteVaries(e.raw, MinDistinct(n)) /\ ByteVaries(e.obs, MinDistinct(n) \div 2)>>,
             <<"C15.bitVaries", BitVaries(e.raw)>>,
             <<"C15.noInternalCopy", NoInternalCopy(e.raw)>>,
             <<"C15.usedIsDrawn", hooked = n =>
                  \A k \in sample : /\ e.used[k] = e.raw[k]
                                    /\ e.obs[k] = (IF e.via = "into_proof" THEN ServerPub(WoWg, WoWN, e.ctx.v, e.used[k])
                                                   ELSE ClientPub(WoWg, WoWN, e.used[k]))>> >>
        ELSE IF e.site = "Login" THEN
          LET four == [k \in 1..(4 * n) |-> Slice(e.obs[((k - 1) \div 4) + 1], ((k - 1) % 4) * 16 + 1, ((k - 1) % 4) * 16 + 16)]
              per == 7 IN
          << <<"C15.drawHappened", hooked = per * n /\
                  \A k \in 1..n : /\ e.sites[per * (k - 1) + 4] = "ReconnectData" /\ e.sites[per * (k - 1) + 5] = "ReconnectData"
                                  /\ e.sites[per * (k - 1) + 6] = "ReconnectRefresh" /\ e.sites[per * (k - 1) + 7] = "ReconnectRefresh">>,
             <<"C15.noRepeat", Distinct(four)>>,
             <<"C15.byteVaries", ByteVaries(four, MinDistinct(n))>>,
             <<"C15.bitVaries", BitVaries(four)>>,
             <<"C15.noInternalCopy", NoInternalCopy(four)>>,
             \* consecutive challenges of ONE server object are unrelated: their XOR is as random as a draw
             <<"C15.refreshUnrelated",
                  LET deltas == [k \in 1..(2 * n) |->
                                   LET a == four[4 * ((k - 1) \div 2) + (IF k % 2 = 1 THEN 1 ELSE 3)]
                                       c == four[4 * ((k - 1) \div 2) + (IF k % 2 = 1 THEN 3 ELSE 4)]
                                   IN [i \in 1..16 |-> a[i] ^^ c[i]]]
                  IN NoInternalCopy(deltas) /\ ByteVaries(deltas, MinDistinct(n)) /\ BitVaries(deltas)>>,
             <<"C15.usedIsDrawn", hooked = per * n =>
                  \A k \in 1..n : \A j \in 1..4 :
                      /\ four[4 * (k - 1) + j] = e.used[per * (k - 1) + 3 + j]
                      /\ e.used[per * (k - 1) + 3 + j] = e.raw[per * (k - 1) + 3 + j]>> >>
        ELSE IF e.site \in {"VanillaSeed", "TbcSeed", "WrathSeed", "PinGridSeed"} THEN
          << <<"C15.noRepeat", Collisions(e.obs) <= (IF n <= 4096 THEN 4 ELSE 8)>>,
             <<"C15.byteVaries", ByteVaries(e.obs, MinDistinct(n))>>,
             <<"C15.bitVaries", BitVaries(e.obs)>>,
             <<"C15.drawHappened", e.via = "new" => (hooked = n /\ allSite(e.site))>>,
             <<"C15.usedIsDrawn", e.via = "new" => \A k \in 1..hooked : e.obs[k] = e.used[k] /\ e.used[k] = e.raw[k]>> >>
        ELSE IF e.site = "MatrixDigits" THEN
          \* counted card by card (TLC refuses to build sets of more than a million elements)
          LET total == FoldLeft(LAMBDA acc, card : acc + Len(card), 0, e.obs)
              count(P(_)) == FoldLeft(LAMBDA acc, card : acc + Cardinality({i \in 1..Len(card) : P(card[i])}), 0, e.obs)
              low == count(LAMBDA d : d <= 5)                     \* digits 0..5: expected share 0.6
              dev == IF 10 * low >= 6 * total THEN 10 * low - 6 * total ELSE 6 * total - 10 * low IN
          << <<"C15.digitRange", count(LAMBDA d : d \in 0..9) = total>>,
             <<"C15.digitBias", 10 * dev <= 343 * (ISqrt(total) + 1)>>,   \* |low - 0.6 n| <= 7 standard deviations (sd = sqrt(0.24 n))
             <<"C15.noRepeat", Distinct(e.obs)>>,
             <<"C15.digitFrequency", \A d \in 0..9 : LET f == count(LAMBDA x : x = d) IN 20 * f >= total /\ 20 * f <= 3 * total>>,
             \* no position is tied to another one: two positions carry the same digit in about a tenth of the cards
             \* (bound: a quarter; with n >= 200 cards more than 7 standard deviations away).  Cards of up to 110 digits.
             \* at every single position every digit turns up, none more than a quarter of the time (expected a tenth;
             \* with n >= 256 cards "never" has probability 2 * 10^-12 per position and digit)
             <<"C15.digitPerPosition", (Len(e.obs[1]) <= 130 /\ n >= 256) =>
                  \A p \in 1..Len(e.obs[1]), d \in 0..9 :
                      LET f == Cardinality({k \in 1..n : e.obs[k][p] = d}) IN f >= 1 /\ 4 * f <= n>>,
             <<"C15.digitPositions", (Len(e.obs[1]) <= 110 /\ n >= 200) =>
                  \A p \in 1..Len(e.obs[1]), q \in 1..Len(e.obs[1]) :
                      p < q => 4 * Cardinality({k \in 1..n : e.obs[k][p] = e.obs[k][q]}) <= n>> >>
        ELSE << <<"H.unknownSite", FALSE>> >>,
        {"Draws", "Draws." \o e.site \o "." \o e.via})

\* Values drawn one after the other on ONE thread by different calls (seeds, salts, challenges, in a mixed order):
\* no value shares a 4-byte window with one of the eight values drawn before it.  Over the whole stream the expected
\* number of coincidences under a uniform source is about 10^-4 (a few hundred thousand window pairs at 2^-32 each);
\* two or more means bytes are handed out twice (a pool that is not consumed, a refill that keeps a tail).
Windows(v) == { SubSeq(v, a, a + 3) : a \in 1..(Len(v) - 3) }
SharedWindow(v, w) == Windows(v) \cap Windows(w) # {}
TrDrawStream ==
    /\ IsEv("DrawStream")
    /\ LET e == E
           n == Len(e.obs)
           shared == Cardinality({ pr \in { <<i, j>> \in (1..n) \X (1..n) : i < j /\ j - i <= 8 } :
                                    SharedWindow(e.obs[pr[1]], e.obs[pr[2]]) }) IN
       DonePure(<< <<"C15.noSharedBytes", shared <= 1>>,
                   <<"C15.noRepeat", \A i, j \in 1..n : (i < j /\ e.kinds[i] = e.kinds[j] /\ Len(e.obs[i]) >= 8) => e.obs[i] # e.obs[j]>> >>,
                {"DrawStream"})

Next ==
    \/ TrReset \/ SkipBad(<<>>) \/ TrDrawStream
    \/ TrNorm \/ TrNormCmp \/ TrNormSweep \/ TrPin \/ TrPinVerify \/ TrPinSweep
    \/ TrIntegrity \/ TrIntegrityReconnect \/ TrCardSize \/ TrCardCell \/ TrCardPrint \/ TrCardCoord \/ TrCardProof \/ TrCardVerify
    \/ TrDraws

Spec == Init /\ [][Next]_vars
=============================================================================
