SPECIFICATION Spec
CONSTANTS
  Hash <- SHA1
INVARIANT Inv
POSTCONDITION PostCondition
CHECK_DEADLOCK FALSE
