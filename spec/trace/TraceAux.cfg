SPECIFICATION Spec
CONSTANTS
  Hash <- SHA1
POSTCONDITION PostCondition
CHECK_DEADLOCK FALSE
