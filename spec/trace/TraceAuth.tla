------------------------------ MODULE TraceAuth ------------------------------
(***************************************************************************)
(* Trace specification for the login / reconnect / public-key API.         *)
(* Reuses the actions of Auth (which uses the formulas of Srp6).  Every    *)
(* value that leaves the API is compared byte for byte with the value the  *)
(* specification computes from the logged arguments and draws.             *)
(*                                                                         *)
(* Tag prefixes name the property a conjunct belongs to (C01..C19).        *)
(***************************************************************************)
EXTENDS Auth, Errors, TraceBase

VARIABLES seen,    \* challenge values seen in this scenario (server and client side)
          acc      \* accepted reconnect attempts <<server object, server challenge, client data, proof>> (a clone of a
                   \* server is another server: it inherits what its source had accepted, and goes its own way)

tvars == <<obj, out, seen, acc>>
vars  == <<obj, out, seen, acc, l, bad, stat>>

Init == AuthInit /\ BaseInit /\ seen = {} /\ acc = {}

ImplPanic(e) == e.res.kind = "panic"
\* C14: a panic of the implementation is legal only where the specification has a documented one
TotalTag(e) == <<"C14.total", ImplPanic(e) => out'.kind = "panic">>
KindTag(e)  == <<"C14.kind", ~ImplPanic(e) => e.res.kind = out'.kind>>
Hon(e) == "hon" \in DOMAIN e /\ e.hon

---------------------------------------------------------------------------
TrReset ==
    /\ l <= Len(Rec) /\ E.ev = "reset"
    /\ obj' = <<>> /\ out' = [kind |-> "none"] /\ seen' = {} /\ acc' = {}
    /\ bad' = FALSE /\ l' = l + 1
    /\ stat' = Bump(stat, {"scenarios"})
    /\ Finish(stat')

TrRegister ==
    /\ IsEv("Register")
    /\ LET e == E
           dok  == DrawOK(e, 1, "Salt", 32) /\ Len(e.draws) = 1
           salt == IF dok THEN e.draws[1].used ELSE IF ImplPanic(e) THEN Zeros(32) ELSE e.res.salt
       IN /\ Register(e.o, e.user, e.pass, salt)
          /\ DoneK(<< TotalTag(e), KindTag(e),
                     <<"C15.draw.Salt", dok>>,
                     <<"C15.used.Salt", ~ImplPanic(e) => e.res.salt = salt>>,
                     <<"C03.v", ~ImplPanic(e) => e.res.v = out'.v>>,
                     <<"C13.text", ~ImplPanic(e) => e.res.U = out'.U>> >>, {"Register"},
                  ImplPanic(e))
    /\ UNCHANGED <<seen, acc>>

TrImport ==
    /\ IsEv("Import")
    /\ LET e == E
       IN /\ Import(e.o, e.user, e.v, e.salt)
          /\ DoneK(<< TotalTag(e), <<"C15.nodraw", NoDraws(e)>>,
                     <<"C01.roundTrip", ~ImplPanic(e) =>
                          (e.res.U = out'.U /\ e.res.v = out'.v /\ e.res.salt = out'.salt)>> >>, {"Import"},
                  ImplPanic(e))
    /\ UNCHANGED <<seen, acc>>

TrExport ==
    /\ IsEv("Export")
    /\ LET e == E
       IN /\ Export(e.o)
          /\ DoneK(<< TotalTag(e), <<"C15.nodraw", NoDraws(e)>>,
                     <<"C01.roundTrip", ~ImplPanic(e) =>
                          (e.res.U = out'.U /\ e.res.v = out'.v /\ e.res.salt = out'.salt)>> >>, {"Export"},
                  ImplPanic(e))
    /\ UNCHANGED <<seen, acc>>

TrIntoProof ==
    /\ IsEv("IntoProof")
    /\ LET e == E
           dok == DrawOK(e, 1, "PrivateKey", 32) /\ Len(e.draws) = 1
           di  == DrawIdx(e, "PrivateKey", 32)
       IN IF di > 0
          THEN /\ IntoProof(e.o, e.o2, e.draws[di].used)
               /\ DoneK(<< TotalTag(e), KindTag(e),
                          <<"C15.draw.PrivateKey", dok>>,
                          <<"C03.B", e.res.kind = "ok" => (out'.kind = "ok" /\ e.res.B = out'.B)>>,
                          <<"C04.ownB", (e.res.kind = "ok") = (out'.kind = "ok")>>,
                          <<"C01.roundTrip", e.res.kind = "ok" => (out'.kind = "ok" /\ e.res.salt = out'.salt)>> >>,
                       {"IntoProof"} \cup (IF e.draws[di].raw # e.draws[di].used THEN {"IntoProof.injected"} ELSE {}),
                  e.res.kind # out'.kind)
          ELSE /\ UNCHANGED <<obj, out>>
               /\ DoneK(<< <<"C15.draw.PrivateKey", FALSE>> >>, {"IntoProof"}, TRUE)
    /\ UNCHANGED <<seen, acc>>

TrPubKey ==
    /\ IsEv("PubKey")
    /\ LET e == E
           valid == KeyValid(e.bytes, SrvN)
       IN /\ UNCHANGED <<obj, out>>
          /\ DonePure(<< <<"C14.total", ~ImplPanic(e)>>,
                     <<"C04.iff", ~ImplPanic(e) => ((e.res.kind = "ok") = valid)>>,
                     <<"C04.kind", e.res.kind = "err" => e.res.err = KeyErrKind(e.bytes)>>,
                     <<"C04.unchanged", e.res.kind = "ok" => e.res.bytes = e.bytes>>,
                     <<"EXT.display", e.res.kind = "err" =>
                          (e.res.display = KeyErrText(e.res.err) /\ e.res.viaSrpError = e.res.display)>>,
                     <<"C15.nodraw", NoDraws(e)>> >>,
                  {"PubKey"} \cup (IF valid THEN {} ELSE {"PubKey.invalid"}))
    /\ UNCHANGED <<seen, acc>>

\* exhaustive sweep of the 2^bits arrays whose bytes are each 0 or N's byte: exactly 0 and N are refused
TrPubKeySweep ==
    /\ IsEv("PubKeySweep")
    /\ LET e == E
           total == IF e.bits = 32 THEN <<65535, 65534>>            \* 2^32 - 2 as <<hi, lo>> 16-bit halves
                    ELSE <<(2 ^ (e.bits - 16)) - 1, 65534>>          \* 2^bits - 2
           masks == {e.refused[k].mask : k \in 1..Len(e.refused)}
       IN /\ UNCHANGED <<obj, out>>
          /\ DonePure(<< <<"C14.total", e.panicked = 0>>,
                         <<"C04.sweepRefused", masks = {<<0, 0, 0, 0>>, <<255, 255, 255, 255>>} /\ Len(e.refused) = 2>>,
                         <<"C04.sweepKinds", \A k \in 1..Len(e.refused) :
                              e.refused[k].kind = (IF e.refused[k].mask = <<0, 0, 0, 0>> THEN "zero" ELSE "modN")>>,
                         <<"C04.sweepAccepted", e.accepted = total>>,
                         <<"C04.unchanged", e.changed = 0>> >>,
                      {"PubKeySweep", "PubKeySweep.bits" \o ToString(e.bits)})
    /\ UNCHANGED <<seen, acc>>

TrClientNew ==
    /\ IsEv("ClientNew")
    /\ LET e == E
           dok == DrawOK(e, 1, "PrivateKey", 32) /\ Len(e.draws) = 1
           di  == DrawIdx(e, "PrivateKey", 32)
       IN IF di > 0
          THEN /\ ClientNew(e.o, e.user, e.pass, e.g, e.N, e.B, e.salt, e.draws[di].used)
               /\ DoneK(<< TotalTag(e), KindTag(e),
                          <<"C15.draw.PrivateKey", dok>>,
                          <<"C03.A", e.res.kind = "ok" => (out'.kind = "ok" /\ e.res.A = out'.A)>>,
                          <<"C03.M1", e.res.kind = "ok" => (out'.kind = "ok" /\ e.res.M1 = out'.M1)>>,
                          \* built-in group: any B other than k*v is the key of an honest server for some b (7 generates
                          \* every residue), and that server accepts this client iff its proof is the specification's
                          <<"C01.honestClient", (e.N = SrvN /\ e.g = SrvG /\ e.res.kind = "ok" /\ out'.kind = "ok") => e.res.M1 = out'.M1>>,
                          \* where the specification produces values the client must produce them (not give up)
                          <<"C03.produced", out'.kind = "ok" => e.res.kind = "ok">>,
                          <<"C04.ownA", (e.res.kind = "ok") = (out'.kind = "ok")>> >>,
                       {"ClientNew"}
                       \cup (IF e.N # SrvN \/ e.g # SrvG THEN {"ClientNew.announcedGroup"} ELSE {})
                       \cup (IF out'.kind = "ok" /\ out'.A[32] = 0 THEN {"class.A.zeroPadded"} ELSE {})
                       \cup (LET x == X(Text(e.user), Text(e.pass), e.salt)
                             IN (IF x[1] = 0 THEN {"class.x.lowZero"} ELSE {}) \cup (IF x[20] = 0 THEN {"class.x.highZero"} ELSE {})
                                \cup (IF \E w \in 0..4 : \A k \in 1..4 : x[4 * w + k] = 0 THEN {"class.x.zeroWord"} ELSE {}))
                       \cup (IF out'.kind = "ok" /\ (Uh(out'.A, e.B)[1] = 0 \/ Uh(out'.A, e.B)[20] = 0) THEN {"class.u.zeroEnd"} ELSE {})
                       \cup (IF BnCmp(e.B, BnMul(K3, Verifier(e.g, e.N, Text(e.user), Text(e.pass), e.salt))) < 0
                             THEN {"class.BminusKv.negative"} ELSE {"class.BminusKv.nonneg"}),
                  e.res.kind # out'.kind)
          ELSE /\ UNCHANGED <<obj, out>>
               /\ DoneK(<< <<"C15.draw.PrivateKey", FALSE>> >>, {"ClientNew"}, TRUE)
    /\ UNCHANGED <<seen, acc>>

\* classes of the shared secret reached by an honest exchange (evidence, measured by TLC)
SClasses(p, A) ==
    LET S == ServerS(SrvN, A, p.v, Uh(A, p.B), p.b)
        z == LeadingZeros(S)
    IN (IF z >= 1 THEN {"class.S.lowZero>=1"} ELSE {})
       \cup (IF z >= 2 THEN {"class.S.lowZero>=2"} ELSE {})
       \cup (IF z >= 3 THEN {"class.S.lowZero>=3"} ELSE {})
       \cup (IF z % 2 = 1 THEN {"class.S.lowZero.odd"} ELSE {})
       \cup (IF S[32] = 0 THEN {"class.S.zeroPadded"} ELSE {})
       \cup (IF p.B[32] = 0 THEN {"class.B.zeroPadded"} ELSE {})
       \cup (IF p.v[32] = 0 THEN {"class.v.zeroPadded"} ELSE {})

TrIntoServer ==
    /\ IsEv("IntoServer")
    /\ LET e == E
           ok  == e.res.kind = "ok"
           dok == IF ok THEN DrawOK(e, 1, "ReconnectData", 16) /\ Len(e.draws) = 1 ELSE TRUE
           chal == IF ok /\ dok THEN e.draws[1].used ELSE IF ok THEN e.res.chal ELSE Zeros(16)
           p == obj[e.o]
       IN /\ IntoServer(e.o, e.o2, e.A, e.M1, chal)
          /\ seen' = IF out'.kind = "ok" THEN seen \cup {chal} ELSE seen
          /\ DoneK(<< TotalTag(e),
                     <<"C01.srvAccept", out'.kind = "ok" => ok>>,
                     <<"C01.specHonest", Hon(e) => out'.kind = "ok">>,
                     <<"C02.srvIff", ok => out'.kind = "ok">>,
                     <<"C02.noSession", e.res.kind = "err" => out'.kind = "err">>,
                     <<"C02.srvPayload", (e.res.kind = "err" /\ out'.kind = "err") =>
                          (e.res.client = e.M1 /\ e.res.server = out'.server)>>,
                     <<"EXT.display", e.res.kind = "err" => e.res.display = MatchProofsText(e.res.client, e.res.server)>>,
                     <<"C03.M2", (ok /\ out'.kind = "ok") => e.res.M2 = out'.M2>>,
                     <<"C03.K", (ok /\ out'.kind = "ok") => e.res.K = out'.K>>,
                     <<"C15.draw.ReconnectData", dok>>,
                     <<"C15.used.ReconnectData", (ok /\ dok) => e.res.chal = chal>>,
                     <<"C05.fresh", (ok /\ out'.kind = "ok") => chal \notin seen>> >>,
                  {"IntoServer"} \cup (IF out'.kind = "ok" THEN {"IntoServer.accept"} \cup SClasses(p, e.A)
                                       ELSE {"IntoServer.reject"}),
                  e.res.kind # out'.kind)
    /\ UNCHANGED acc

TrVerifyServerProof ==
    /\ IsEv("VerifyServerProof")
    /\ LET e == E
           ok == e.res.kind = "ok"
       IN /\ VerifyServerProof(e.o, e.o2, e.M2)
          /\ DoneK(<< TotalTag(e), <<"C15.nodraw", NoDraws(e)>>,
                     <<"C01.cliAccept", out'.kind = "ok" => ok>>,
                     <<"C01.specHonest", Hon(e) => out'.kind = "ok">>,
                     <<"C02.cliIff", ok => out'.kind = "ok">>,
                     <<"C02.noSession", e.res.kind = "err" => out'.kind = "err">>,
                     <<"C02.cliPayload", (e.res.kind = "err" /\ out'.kind = "err") =>
                          (e.res.client = out'.client /\ e.res.server = e.M2)>>,
                     <<"C03.K", (ok /\ out'.kind = "ok") => e.res.K = out'.K>> >>,
                  {"VerifyServerProof"} \cup (IF out'.kind = "ok" THEN {"VerifyServerProof.accept"}
                                              ELSE {"VerifyServerProof.reject"}),
                  e.res.kind # out'.kind)
    /\ UNCHANGED <<seen, acc>>

TrSessionKey ==
    /\ IsEv("SessionKey")
    /\ LET e == E
       IN /\ SessionKeyOf(e.o)
          /\ Done(<< <<"C03.K", e.res.K = out'.K>> >>, {"SessionKey"})
    /\ UNCHANGED <<seen, acc>>

\* end of an honest login: both objects exist and hold the same key
TrAgree ==
    /\ IsEv("Agree")
    /\ LET e == E
       IN /\ UNCHANGED <<obj, out>>
          /\ Done(<< <<"C01.keysEqual", e.sk = e.ck /\ Len(e.sk) = 40>>,
                     <<"C01.specAgree", Has(e.so, "server") /\ Has(e.co, "client") /\ KeysAgree(e.so, e.co)>>,
                     <<"C03.K", Has(e.so, "server") => e.sk = obj[e.so].K>> >>, {"Agree"})
    /\ UNCHANGED <<seen, acc>>

\* n refused reconnect attempts recorded as one event (see the harness): the server is still a server, its challenge is
\* the recorded one, and the next legitimate attempt is judged against it
TrBulkReject ==
    /\ IsEv("BulkReject")
    /\ LET e == E IN
       /\ Has(e.o, "server")
       /\ obj' = [obj EXCEPT ![e.o].chal = e.chalAfter]
       /\ out' = [kind |-> "ok"]
       /\ seen' = seen \cup {e.chalAfter}
       /\ DoneK(<< <<"C14.total", e.res.kind # "panic">>,
                   <<"C05.bulkRefused", e.res.kind # "panic" => e.rejected = e.n>>,
                   <<"C05.refreshed", e.chalAfter \notin seen>> >>, {"BulkReject"}, e.res.kind = "panic")
    /\ UNCHANGED acc

TrClone ==
    /\ IsEv("Clone")
    /\ CloneObj(E.o, E.o2)
    /\ Done(<<>>, {"Clone"})
    /\ acc' = acc \cup { <<E.o2, t[2], t[3], t[4]>> : t \in {u \in acc : u[1] = E.o} }
    /\ UNCHANGED seen

TrDrop ==
    /\ IsEv("Drop")
    /\ DropObj(E.o)
    /\ Done(<<>>, {"Drop"})
    /\ UNCHANGED <<seen, acc>>

TrReconnectValues ==
    /\ IsEv("ReconnectValues")
    /\ LET e == E
           dok == DrawOK(e, 1, "ReconnectData", 16) /\ Len(e.draws) = 1
           cchal == IF dok THEN e.draws[1].used ELSE IF ImplPanic(e) THEN Zeros(16) ELSE e.res.cchal
       IN /\ ReconnectValues(e.o, e.schal, cchal)
          /\ seen' = seen \cup {cchal}
          /\ DoneK(<< TotalTag(e),
                     <<"C15.draw.ReconnectData", dok>>,
                     <<"C15.used.ReconnectData", ~ImplPanic(e) => e.res.cchal = cchal>>,
                     <<"C05.clientFresh", cchal \notin seen>>,
                     <<"C05.proofValue", ~ImplPanic(e) => e.res.proof = out'.proof>> >>, {"ReconnectValues"},
                  ImplPanic(e))
    /\ UNCHANGED acc

TrVerifyReconnect ==
    /\ IsEv("VerifyReconnect")
    /\ LET e == E
           dok == DrawOK(e, 1, "ReconnectRefresh", 16) /\ Len(e.draws) = 1
           newchal == IF dok THEN e.draws[1].used ELSE IF ImplPanic(e) THEN Zeros(16) ELSE e.res.chalAfter
           triple == <<e.o, obj[e.o].chal, e.cdata, e.proof>>
       IN /\ VerifyReconnect(e.o, e.cdata, e.proof, newchal)
          /\ seen' = seen \cup {newchal}
          /\ acc' = IF out'.ok THEN acc \cup {triple} ELSE acc
          /\ DoneK(<< TotalTag(e),
                     <<"C05.iff", ~ImplPanic(e) => e.res.ok = out'.ok>>,
                     <<"C05.offered", ~ImplPanic(e) => e.res.chalBefore = out'.chalBefore>>,
                     <<"C05.refreshed", ~ImplPanic(e) =>
                          (dok /\ e.res.chalAfter = newchal /\ e.res.chalAfter # e.res.chalBefore
                               /\ newchal \notin seen)>>,
                     <<"C05.singleUse", out'.ok => triple \notin acc>>,
                     <<"C05.legit", e.note = "good" => out'.ok>>,
                     <<"C15.draw.ReconnectRefresh", dok>> >>,
                  {"VerifyReconnect", "Reconnect." \o e.note}
                  \cup (IF out'.ok THEN {"Reconnect.accepted"} ELSE {"Reconnect.rejected"}),
                  ImplPanic(e))

TrInterleave ==
    /\ IsEv("Interleave")
    /\ LET e == E
           z == LeadingZeros(e.S)
       IN /\ UNCHANGED <<obj, out>>
          /\ DonePure(<< <<"C14.total", ~ImplPanic(e)>>,
                     <<"C03.interleave", ~ImplPanic(e) => e.res.K = SrpInterleave(e.S)>> >>,
                  {"Interleave", "Interleave.z" \o ToString(z)})
    /\ UNCHANGED <<seen, acc>>

Next ==
    \/ TrReset \/ SkipBad(tvars)
    \/ TrPubKeySweep \/ TrRegister \/ TrImport \/ TrExport \/ TrIntoProof \/ TrPubKey \/ TrClientNew
    \/ TrIntoServer \/ TrVerifyServerProof \/ TrSessionKey \/ TrAgree \/ TrClone \/ TrDrop
    \/ TrReconnectValues \/ TrVerifyReconnect \/ TrBulkReject \/ TrInterleave

Spec == Init /\ [][Next]_vars

\* invariants evaluated in every state of every observed execution
Inv == TypeOK /\ Total
=============================================================================
