----------------------------- MODULE NormString -----------------------------
(***************************************************************************)
(* Credential strings (usernames, passwords).  Input is a Rust string,     *)
(* modelled as its sequence of Unicode scalar values (code points).        *)
(*                                                                         *)
(* Accepted iff the UTF-8 encoding is 1..16 bytes long and every character *)
(* is ASCII 0x20..0x7E.  The length test comes first; otherwise the first  *)
(* offending character is reported.  The stored text is the input with     *)
(* a..z mapped to A..Z.                                                    *)
(***************************************************************************)
EXTENDS Integers, Sequences

MaxStrLen == 16

Utf8Len(c) == IF c < 128 THEN 1 ELSE IF c < 2048 THEN 2 ELSE IF c < 65536 THEN 3 ELSE 4

RECURSIVE Utf8Total(_)
Utf8Total(cps) == IF Len(cps) = 0 THEN 0 ELSE Utf8Len(Head(cps)) + Utf8Total(Tail(cps))

Allowed(c) == c >= 32 /\ c <= 126
Upper(c)   == IF c >= 97 /\ c <= 122 THEN c - 32 ELSE c

Normalize(cps) ==
    LET n == Utf8Total(cps) IN
    IF n = 0 \/ n > MaxStrLen THEN [kind |-> "errLen"]
    ELSE LET badIdx == {i \in 1..Len(cps) : ~Allowed(cps[i])} IN
         IF badIdx # {} THEN
              LET first == CHOOSE i \in badIdx : \A j \in badIdx : i <= j
              IN [kind |-> "errChar", cp |-> cps[first]]
         ELSE [kind |-> "ok", text |-> [i \in 1..Len(cps) |-> Upper(cps[i])]]

IsValid(cps) == Normalize(cps).kind = "ok"
\* the text of a string known to be valid
Text(cps) == Normalize(cps).text

\* lexicographic order on byte strings, as Rust's str/[u8] ordering: -1, 0, 1
RECURSIVE LexCmp(_, _)
LexCmp(a, b) ==
    IF Len(a) = 0 /\ Len(b) = 0 THEN 0
    ELSE IF Len(a) = 0 THEN -1
    ELSE IF Len(b) = 0 THEN 1
    ELSE IF Head(a) < Head(b) THEN -1
    ELSE IF Head(a) > Head(b) THEN 1
    ELSE LexCmp(Tail(a), Tail(b))

(* Properties of the definition itself (checked by MCNormString):          *)
Idempotent(cps) == IsValid(cps) => Normalize(Text(cps)) = [kind |-> "ok", text |-> Text(cps)]
CaseInsensitive(cps) ==
    LET swapped == [i \in 1..Len(cps) |->
                      IF cps[i] >= 97 /\ cps[i] <= 122 THEN cps[i] - 32
                      ELSE IF cps[i] >= 65 /\ cps[i] <= 90 THEN cps[i] + 32 ELSE cps[i]]
    IN IsValid(cps) => (IsValid(swapped) /\ Text(swapped) = Text(cps))
=============================================================================
