---------------------------- MODULE ReconnectInd ----------------------------
(***************************************************************************)
(* Unbounded-history argument for C05 (Apalache, inductive invariant).     *)
(* The reconnect machine of Auth!VerifyReconnect with the hash as an       *)
(* injective constructor: a proof is the record of the four hashed fields. *)
(* Challenges are integers; every attempt replaces the challenge on offer  *)
(* by a value never offered before.                                        *)
(*   IndInv is inductive:  Init => IndInv,  IndInv /\ Next => IndInv'      *)
(*   IndInv => SingleUse /\ OnlyCurrent                                    *)
(* so for histories of ANY length no <<challenge, data, proof>> triple is  *)
(* accepted twice and a proof is accepted only for the current challenge.  *)
(***************************************************************************)
EXTENDS Integers, FiniteSets, Apalache

VARIABLES
    \* @type: Int;
    chal,
    \* @type: Set(Int);
    offered,
    \* @type: Set({c: Int, cd: Int, u: Int, k: Int, sd: Int});
    accepted,
    \* @type: Bool;
    lastOk,
    \* @type: {c: Int, cd: Int, u: Int, k: Int, sd: Int};
    lastTry

U0 == 1
K0 == 10

Init ==
    /\ chal = 0 /\ offered = {0} /\ accepted = {}
    /\ lastOk = FALSE /\ lastTry = [c |-> 0, cd |-> 0, u |-> 0, k |-> 0, sd |-> 0]

\* an attempt presents client data cd and a proof = Hash(u | cd | sd | k) for any fields the peer likes
Attempt(cd, u, k, sd, fresh) ==
    /\ fresh \notin offered
    /\ LET ok == (u = U0 /\ k = K0 /\ sd = chal) IN     \* proof equals Hash(U0 | cd | chal | K0) iff all fields equal
       /\ lastOk' = ok
       /\ lastTry' = [c |-> chal, cd |-> cd, u |-> u, k |-> k, sd |-> sd]
       /\ accepted' = IF ok THEN accepted \union {[c |-> chal, cd |-> cd, u |-> u, k |-> k, sd |-> sd]} ELSE accepted
    /\ chal' = fresh
    /\ offered' = offered \union {fresh}

Next == \E cd \in 0..3, u \in 0..2, k \in 9..11, sd \in Int, fresh \in Int : Attempt(cd, u, k, sd, fresh)

\* the inductive invariant
IndInv ==
    /\ chal \in offered
    /\ \A t \in accepted : t.c \in offered /\ t.c # chal /\ t.sd = t.c /\ t.u = U0 /\ t.k = K0

\* what C05 states
OnlyCurrent == \A t \in accepted : t.sd = t.c /\ t.u = U0 /\ t.k = K0
SingleUse == \A t \in accepted : t.c # chal        \* a challenge an accepted proof used is never on offer again

\* for the inductive step Apalache starts from any state satisfying IndInv
\* (Gen(n) yields an arbitrary value of the variable's type with collections of at most n elements)
IndInit ==
    /\ chal = Gen(1) /\ offered = Gen(6) /\ accepted = Gen(6)
    /\ lastOk = Gen(1) /\ lastTry = Gen(1)
    /\ IndInv
=============================================================================
