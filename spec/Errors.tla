------------------------------- MODULE Errors -------------------------------
(***************************************************************************)
(* Beyond the listed properties: the Display texts of the error values and *)
(* of NormalizedString, as byte strings (ASCII).  Checked on traces under  *)
(* tags with the prefix EXT (reported as notes, never as a violation of a  *)
(* listed property).                                                       *)
(***************************************************************************)
EXTENDS Bytes

\* "Public key is zero." / "Public key modulus the large safe prime is zero."
KeyErrText(kind) ==
    IF kind = "zero"
    THEN <<80, 117, 98, 108, 105, 99, 32, 107, 101, 121, 32, 105, 115, 32, 122, 101, 114, 111, 46>>
    ELSE <<80, 117, 98, 108, 105, 99, 32, 107, 101, 121, 32, 109, 111, 100, 117, 108, 117, 115, 32, 116, 104, 101, 32,
           108, 97, 114, 103, 101, 32, 115, 97, 102, 101, 32, 112, 114, 105, 109, 101, 32, 105, 115, 32, 122, 101, 114, 111, 46>>

\* "String is longer than allowed length."
TooLongText == <<83, 116, 114, 105, 110, 103, 32, 105, 115, 32, 108, 111, 110, 103, 101, 114, 32, 116, 104, 97, 110, 32,
                 97, 108, 108, 111, 119, 101, 100, 32, 108, 101, 110, 103, 116, 104, 46>>

\* UTF-8 encoding of a Unicode scalar value
Utf8(c) == IF c < 128 THEN <<c>>
           ELSE IF c < 2048 THEN <<192 + (c \div 64), 128 + (c % 64)>>
           ELSE IF c < 65536 THEN <<224 + (c \div 4096), 128 + ((c \div 64) % 64), 128 + (c % 64)>>
           ELSE <<240 + (c \div 262144), 128 + ((c \div 4096) % 64), 128 + ((c \div 64) % 64), 128 + (c % 64)>>
\* "Character is not allowed: 'c'"
NotAllowedText(c) == <<67, 104, 97, 114, 97, 99, 116, 101, 114, 32, 105, 115, 32, 110, 111, 116, 32, 97, 108, 108, 111, 119, 101, 100, 58, 32, 39>>
                     \o Utf8(c) \o <<39>>

\* lower-case hex of a byte without leading zero, as {:x?} prints the elements of an array
HexDigit(n) == IF n < 10 THEN 48 + n ELSE 87 + n
HexByte(b) == IF b < 16 THEN <<HexDigit(b)>> ELSE <<HexDigit(b \div 16), HexDigit(b % 16)>>
RECURSIVE HexList(_)
HexList(s) == IF Len(s) = 0 THEN <<>>
              ELSE IF Len(s) = 1 THEN HexByte(s[1])
              ELSE HexByte(s[1]) \o <<44, 32>> \o HexList(Tail(s))
HexArray(s) == <<91>> \o HexList(s) \o <<93>>      \* "[1a, 2, ff]"

\* "Proofs do not match. Client proof: '[..]', server proof: '[..]'"
MatchProofsText(client, server) ==
    <<80, 114, 111, 111, 102, 115, 32, 100, 111, 32, 110, 111, 116, 32, 109, 97, 116, 99, 104, 46, 32, 67, 108, 105, 101, 110,
      116, 32, 112, 114, 111, 111, 102, 58, 32, 39>> \o HexArray(client)
    \o <<39, 44, 32, 115, 101, 114, 118, 101, 114, 32, 112, 114, 111, 111, 102, 58, 32, 39>> \o HexArray(server) \o <<39>>
=============================================================================
