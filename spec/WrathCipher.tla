----------------------------- MODULE WrathCipher -----------------------------
(***************************************************************************)
(* Wrath of the Lich King header streams: RC4-drop1024 keyed by            *)
(* HMAC-SHA1(direction constant, session key).                             *)
(*   client -> server : constant C2S  (client encrypts, server decrypts)   *)
(*   server -> client : constant S2C  (server encrypts, client decrypts)   *)
(* The constants are the protocol's (as published by every server          *)
(* emulator), not copied from the crate under test.                        *)
(* Also the Wrath server-header codec (4 or 5 bytes) and the client's      *)
(* "attempt, then one more byte" decoder.                                  *)
(***************************************************************************)
EXTENDS Prim

C2S == <<194, 179, 114, 60, 198, 174, 217, 181, 52, 60, 83, 238, 47, 67, 103, 206>>
S2C == <<204, 152, 174, 4, 232, 151, 234, 202, 18, 221, 192, 147, 66, 145, 83, 87>>

DropLen == 1024

DirConst(role, dir) ==    \* which constant keys the half of a given role and direction
    IF (role = "client" /\ dir = "enc") \/ (role = "server" /\ dir = "dec") THEN C2S ELSE S2C

\* RC4 state of a freshly built half: KSA, then 1024 keystream bytes discarded
WrathInit(role, dir, K) == RC4Apply(RC4Init(HMACSHA1(DirConst(role, dir), K)), Zeros(DropLen))[2]

\* a call XORs the data with the next keystream bytes: <<output, state'>>
WrathApply(st, data) == RC4Apply(st, data)

---------------------------------------------------------------------------
(* Server header codec.  size <= 0x7FFF: 4 bytes [size BE16][opcode LE16]; *)
(* otherwise 5 bytes [0x80 | size>>16][size BE16 low][opcode LE16].        *)
MaxSize == 8388607      \* 0x7FFFFF

IsLarge(size) == size > 32767
EncodeServer(size, opcode) ==
    IF IsLarge(size)
    THEN <<((size \div 65536) % 256) | 128, (size \div 256) % 256, size % 256>> \o U16LE(opcode)
    ELSE U16BE(size) \o U16LE(opcode)

Marker(b) == (b & 128) # 0
DecodeSmall(b) == [size |-> BE16(b[1], b[2]), opcode |-> LE16(b[3], b[4])]
DecodeLarge(b) == [size |-> ((b[1] & 127) * 65536) + (b[2] * 256) + b[3], opcode |-> LE16(b[4], b[5])]

\* codec facts (checked for all sizes by MCWrathHeader)
CodecOK(size, opcode) ==
    LET w == EncodeServer(size, opcode) IN
    /\ Len(w) = (IF size <= 32767 THEN 4 ELSE 5)
    /\ Marker(w[1]) = (size > 32767)
    /\ (IF Marker(w[1]) THEN DecodeLarge(w) ELSE DecodeSmall(w)) = [size |-> size, opcode |-> opcode]

(* Client decoder: state = <<rc4 state, stash>>; stash = the 4 decrypted    *)
(* bytes of a large header awaiting its fifth byte (kept after completion;  *)
(* it is only ever read after an attempt that set it).                      *)
Attempt(rc4, stash, bytes4) ==
    LET r == WrathApply(rc4, bytes4)
        plain == r[1]
    IN IF Marker(plain[1])
       THEN [need5 |-> TRUE, rc4 |-> r[2], stash |-> plain, plain |-> plain]
       ELSE [need5 |-> FALSE, rc4 |-> r[2], stash |-> stash, plain |-> plain, header |-> DecodeSmall(plain)]
Complete(rc4, stash, byte) ==
    LET r == WrathApply(rc4, <<byte>>)
    IN [rc4 |-> r[2], stash |-> stash, header |-> DecodeLarge(stash \o r[1])]
=============================================================================
