------------------------------- MODULE Headers -------------------------------
(***************************************************************************)
(* World-server login and header encryption for the three expansions, as   *)
(* one state machine over cipher *halves*.                                 *)
(*                                                                         *)
(* A crypto object handed out by ProofSeed::into_{client,server}_header_   *)
(* crypto is a pair of halves (one per direction) with disjoint state; the *)
(* combined object, its split halves, the typed header helpers, the Read / *)
(* Write wrappers and the raw encrypt / decrypt calls are all the same     *)
(* action on the half concerned (that is what C11 / C12 state).            *)
(*                                                                         *)
(* half[h] = [exp  : "vanilla" | "tbc" | "wrath",                          *)
(*            role : "client" | "server",  dir : "enc" | "dec",            *)
(*            K    : 40-byte session key,                                  *)
(*            key  : derived stream key (vanilla, tbc) or <<>>,            *)
(*            st   : [i, p] (vanilla, tbc) or RC4 <<S, i, j>> (wrath),     *)
(*            stash: 4 bytes (wrath client decrypter) or <<>>]             *)
(* hout is the observable outcome of the last call.                        *)
(***************************************************************************)
EXTENDS StreamCipher, WrathCipher, Srp6

VARIABLES half, hout
hvars == <<half, hout>>

HInit == half = <<>> /\ hout = [kind |-> "none"]

HPut(f, h, r) == [x \in (DOMAIN f) \cup {h} |-> IF x = h THEN r ELSE f[x]]

NewHalf(exp, role, dir, K) ==
    [exp |-> exp, role |-> role, dir |-> dir, K |-> K,
     key |-> IF exp = "wrath" THEN <<>> ELSE CipherKey(exp, K),
     st  |-> IF exp = "wrath" THEN WrathInit(role, dir, K) ELSE St0,
     stash |-> IF exp = "wrath" /\ role = "client" /\ dir = "dec" THEN Zeros(4) ELSE <<>>]

\* the raw operation on a half: <<output bytes, half'>>
Apply(hf, data) ==
    IF hf.exp = "wrath"
    THEN LET r == WrathApply(hf.st, data) IN << r[1], [hf EXCEPT !.st = r[2]] >>
    ELSE LET r == IF hf.dir = "enc" THEN EncRun(hf.key, hf.st, data) ELSE DecRun(hf.key, hf.st, data)
         IN << r[1], [hf EXCEPT !.st = r[2]] >>

---------------------------------------------------------------------------
(* World login (identical for the three expansions)                        *)

\* ProofSeed::into_client_header_crypto: own seed cseed (drawn earlier), peer seed sseed
WorldClient(he, hd, exp, U, K, cseed, sseed) ==
    /\ half' = HPut(HPut(half, he, NewHalf(exp, "client", "enc", K)), hd, NewHalf(exp, "client", "dec", K))
    /\ hout' = [kind |-> "ok", proof |-> WorldProof(U, cseed, sseed, K)]

\* ProofSeed::into_server_header_crypto: own seed sseed, peer seed cseed, presented proof
WorldServer(he, hd, exp, U, K, proof, sseed, cseed) ==
    LET exp20 == WorldProof(U, cseed, sseed, K)
    IN IF proof = exp20
       THEN /\ half' = HPut(HPut(half, he, NewHalf(exp, "server", "enc", K)), hd, NewHalf(exp, "server", "dec", K))
            /\ hout' = [kind |-> "ok"]
       ELSE /\ half' = half
            /\ hout' = [kind |-> "err", client |-> proof, server |-> exp20]

---------------------------------------------------------------------------
(* Raw calls                                                               *)
Call(h, data) ==      \* encrypt on an encrypter half, decrypt on a decrypter half
    /\ h \in DOMAIN half
    /\ LET r == Apply(half[h], data)
       IN /\ half' = [half EXCEPT ![h] = r[2]]
          /\ hout' = [kind |-> "ok", out |-> r[1]]

(* Typed header helpers                                                    *)
WireOf(hf, kind, size, opcode) ==
    IF kind = "client" THEN ClientWire(size, opcode)                 \* opcode: 4 LE bytes
    ELSE IF hf.exp = "wrath" THEN EncodeServer(size, opcode)
    ELSE ServerWire(size, opcode)

EncHeader(h, kind, size, opcode) ==
    /\ h \in DOMAIN half /\ half[h].dir = "enc"
    /\ LET w == WireOf(half[h], kind, size, opcode)
           r == Apply(half[h], w)
       IN /\ half' = [half EXCEPT ![h] = r[2]]
          /\ hout' = [kind |-> "ok", out |-> r[1], wire |-> w]

\* fixed-length decrypt helpers (vanilla/tbc both kinds; wrath client header on the server)
DecHeader(h, kind, bytes) ==
    /\ h \in DOMAIN half /\ half[h].dir = "dec"
    /\ LET r == Apply(half[h], bytes)
       IN /\ half' = [half EXCEPT ![h] = r[2]]
          /\ hout' = [kind |-> "ok", plain |-> r[1],
                      header |-> IF kind = "client" THEN ParseClient(r[1]) ELSE ParseServer(r[1])]

\* wrath client: attempt_decrypt_server_header / decrypt_large_server_header
WrathAttemptHdr(h, bytes4) ==
    /\ h \in DOMAIN half /\ half[h].exp = "wrath" /\ half[h].dir = "dec" /\ half[h].role = "client"
    /\ LET a == Attempt(half[h].st, half[h].stash, bytes4)
       IN /\ half' = [half EXCEPT ![h].st = a.rc4, ![h].stash = a.stash]
          /\ hout' = IF a.need5 THEN [kind |-> "need5"] ELSE [kind |-> "ok", header |-> a.header]
WrathCompleteHdr(h, byte) ==
    /\ h \in DOMAIN half /\ half[h].exp = "wrath" /\ half[h].dir = "dec" /\ half[h].role = "client"
    /\ LET c == Complete(half[h].st, half[h].stash, byte)
       IN /\ half' = [half EXCEPT ![h].st = c.rc4]
          /\ hout' = [kind |-> "ok", header |-> c.header]

---------------------------------------------------------------------------
(* Read / Write wrappers under a scripted I/O environment.                 *)
(* A reader script is a sequence of steps [t |-> "data", b |-> bytes] |    *)
(* [t |-> "intr"] | [t |-> "err", kind |-> k]; an empty data step or the   *)
(* end of the script is end-of-file.                                       *)

RECURSIVE ReadExact(_, _, _)
ReadExact(script, need, got) ==
    IF need = 0 THEN [ok |-> TRUE, bytes |-> got, rest |-> script]
    ELSE IF Len(script) = 0 THEN [ok |-> FALSE, kind |-> "UnexpectedEof", rest |-> script]
    ELSE LET s == Head(script) IN
         IF s.t = "intr" THEN ReadExact(Tail(script), need, got)
         ELSE IF s.t = "err" THEN [ok |-> FALSE, kind |-> s.kind, rest |-> Tail(script)]
         ELSE IF Len(s.b) = 0 THEN [ok |-> FALSE, kind |-> "UnexpectedEof", rest |-> Tail(script)]
         ELSE IF Len(s.b) <= need THEN ReadExact(Tail(script), need - Len(s.b), got \o s.b)
         ELSE ReadExact(<<[t |-> "data", b |-> SubSeq(s.b, need + 1, Len(s.b))]>> \o Tail(script),
                        0, got \o SubSeq(s.b, 1, need))

HdrLen(kind) == IF kind = "client" THEN 6 ELSE 4

\* read_and_decrypt_{server,client}_header on a fixed-length header
ReadHeader(h, kind, script) ==
    /\ h \in DOMAIN half /\ half[h].dir = "dec"
    /\ LET rd == ReadExact(script, HdrLen(kind), <<>>)
       IN IF ~rd.ok
          THEN /\ half' = half                                   \* failed read: decrypter untouched
               /\ hout' = [kind |-> "err", io |-> rd.kind]
          ELSE LET r == Apply(half[h], rd.bytes)
               IN /\ half' = [half EXCEPT ![h] = r[2]]
                  /\ hout' = [kind |-> "ok", header |-> IF kind = "client" THEN ParseClient(r[1]) ELSE ParseServer(r[1])]

\* wrath client read_and_decrypt_server_header: 4 bytes, attempt, maybe one more byte
WrathReadHeader(h, script) ==
    /\ h \in DOMAIN half /\ half[h].exp = "wrath" /\ half[h].dir = "dec" /\ half[h].role = "client"
    /\ LET rd == ReadExact(script, 4, <<>>)
       IN IF ~rd.ok
          THEN /\ half' = half
               /\ hout' = [kind |-> "err", io |-> rd.kind]
          ELSE LET a == Attempt(half[h].st, half[h].stash, rd.bytes)
               IN IF ~a.need5
                  THEN /\ half' = [half EXCEPT ![h].st = a.rc4, ![h].stash = a.stash]
                       /\ hout' = [kind |-> "ok", header |-> a.header, used |-> 4]
                  ELSE LET rd2 == ReadExact(rd.rest, 1, <<>>)
                       IN IF ~rd2.ok
                          THEN \* failed at the fifth byte: exactly as after the 4-byte attempt
                               /\ half' = [half EXCEPT ![h].st = a.rc4, ![h].stash = a.stash]
                               /\ hout' = [kind |-> "err", io |-> rd2.kind, pending |-> TRUE]
                          ELSE LET c == Complete(a.rc4, a.stash, rd2.bytes[1])
                               IN /\ half' = [half EXCEPT ![h].st = c.rc4, ![h].stash = a.stash]
                                  /\ hout' = [kind |-> "ok", header |-> c.header, used |-> 5]

(* A writer script: [t |-> "accept", n |-> k] (takes up to k bytes; k = 0   *)
(* is a zero-length write = WriteZero error) | [t |-> "intr"] |             *)
(* [t |-> "err", kind |-> k]; after the script the writer accepts all.      *)
RECURSIVE WriteAll(_, _, _)
WriteAll(script, buf, done) ==
    IF Len(buf) = 0 THEN [ok |-> TRUE, delivered |-> done]
    ELSE IF Len(script) = 0 THEN [ok |-> TRUE, delivered |-> done \o buf]
    ELSE LET s == Head(script) IN
         IF s.t = "intr" THEN WriteAll(Tail(script), buf, done)
         ELSE IF s.t = "err" THEN [ok |-> FALSE, kind |-> s.kind, delivered |-> done]
         ELSE IF s.n = 0 THEN [ok |-> FALSE, kind |-> "WriteZero", delivered |-> done]
         ELSE LET k == IF s.n < Len(buf) THEN s.n ELSE Len(buf)
              IN WriteAll(Tail(script), SubSeq(buf, k + 1, Len(buf)), done \o SubSeq(buf, 1, k))

\* write_encrypted_{server,client}_header: the header is encrypted (cipher advances), then written
WriteHeader(h, kind, size, opcode, script) ==
    /\ h \in DOMAIN half /\ half[h].dir = "enc"
    /\ LET w  == WireOf(half[h], kind, size, opcode)
           r  == Apply(half[h], w)
           wr == WriteAll(script, r[1], <<>>)
       IN /\ half' = [half EXCEPT ![h] = r[2]]
          /\ hout' = IF wr.ok THEN [kind |-> "ok", delivered |-> wr.delivered, out |-> r[1]]
                     ELSE [kind |-> "err", io |-> wr.kind, delivered |-> wr.delivered, out |-> r[1]]

---------------------------------------------------------------------------
(* split / clone / unsplit                                                 *)
CloneHalf(h, h2) ==
    /\ h \in DOMAIN half
    /\ half' = HPut(half, h2, half[h])
    /\ hout' = [kind |-> "ok"]

\* vanilla EncrypterHalf::unsplit / is_pair_of: succeeds exactly when the session keys are equal
Unsplit(he, hd) ==
    /\ he \in DOMAIN half /\ hd \in DOMAIN half
    /\ half' = half
    /\ hout' = IF half[he].K = half[hd].K THEN [kind |-> "ok"] ELSE [kind |-> "err"]

DropHalf(h) ==
    /\ half' = [x \in (DOMAIN half) \ {h} |-> half[x]]
    /\ hout' = [kind |-> "ok"]

---------------------------------------------------------------------------
HalfOK(hf) ==
    /\ hf.exp \in {"vanilla", "tbc", "wrath"} /\ hf.role \in {"client", "server"} /\ hf.dir \in {"enc", "dec"}
    /\ Len(hf.K) = 40
    /\ IF hf.exp = "wrath" THEN Rc4StateOK(hf.st)
       ELSE /\ Len(hf.key) = (IF hf.exp = "vanilla" THEN 40 ELSE 20)
            /\ hf.st.i \in 0..(Len(hf.key) - 1) /\ hf.st.p \in 0..255
HTypeOK == \A h \in DOMAIN half : HalfOK(half[h])
=============================================================================
