SPECIFICATION Spec
CONSTANTS
  Hash <- SHA1
  SrvG = 5
  NNat = 23
  SrvN <- MCSrvN
  Mode = "small"
INVARIANTS Orderly
CHECK_DEADLOCK FALSE
