------------------------------ MODULE MCPubKey ------------------------------
(***************************************************************************)
(* Public-key validity (C04).                                              *)
(* (a) Scaled model, exhaustive: 2-byte keys.  For every 2-byte prime N    *)
(*     of the cfg and ALL 65 536 arrays k: KeyValid (k mod N # 0, through  *)
(*     the big-number operators) agrees with integer arithmetic, and when  *)
(*     2N >= 2^16 the refused arrays are exactly 0 and N - the theorem the *)
(*     built-in group relies on (TwoNOverflows(WoWN) is checked too).      *)
(* (b) Directed full-size cases for the server's OWN key: for targets t    *)
(*     (sub-masks of N, 1, N-1, and the two refused values 0 and N) TLC    *)
(*     solves v = (t - g^b) / 3 mod N; the harness imports that verifier,  *)
(*     injects b, and into_proof() must yield exactly B = t (or the        *)
(*     documented panic for t = 0 and t = N).                              *)
(***************************************************************************)
EXTENDS Srp6, FiniteSets, Json, TLC

CONSTANTS Primes2, Mode

Key2(k) == <<k % 256, k \div 256>>

VARIABLE n
Init == n \in (IF Mode = "scaled" THEN Primes2 ELSE {0})
Next == UNCHANGED n
Spec == Init /\ [][Next]_n

Scaled == (Mode = "scaled") =>
    /\ \A k \in 0..65535 : KeyValid(Key2(k), Key2(n)) = (k % n # 0)
    /\ (2 * n >= 65536) => {k \in 0..65535 : ~KeyValid(Key2(k), Key2(n))} = {0, n}
    /\ (2 * n < 65536) => Cardinality({k \in 0..65535 : ~KeyValid(Key2(k), Key2(n))}) > 2

ASSUME TwoNOverflows(WoWN)
ASSUME ~KeyValid(Zeros(32), WoWN) /\ ~KeyValid(WoWN, WoWN) /\ KeyErrKind(Zeros(32)) = "zero" /\ KeyErrKind(WoWN) = "modN"
ASSUME KeyValid(Pad(<<183>>, 32), WoWN) /\ KeyValid(Pad(<<0, 155>>, 32), WoWN)       \* the two keys the old shortcut refused

---------------------------------------------------------------------------
Mask(bits) == [i \in 1..32 |-> IF i \in bits THEN WoWN[i] ELSE 0]
Targets == { Mask({1}), Mask({2}), Mask({1, 2}), Mask({32}), Mask(1..31), Mask(2..32), Mask({1, 16, 32}),
             Pad(<<1>>, 32), Pad(BnSubMod(WoWN, <<1>>, WoWN), 32), Zeros(32), WoWN }
Bs == { Pad(<<1>>, 32), Pad(<<0, 1>>, 32), [i \in 1..32 |-> (i * 91 + 3) % 256] }
Inv3 == BnModExp(<<3>>, BnSubMod(WoWN, <<2>>, WoWN), WoWN)       \* 3^(N-2) = 1/3 mod N

OwnKeyCase(t, b) ==
    LET gb == BnModExp(<<WoWg>>, b, WoWN)
        v  == Pad(BnMulMod(BnSubMod(t, gb, WoWN), Inv3, WoWN), 32)
    IN [v |-> v, b |-> b, t |-> Pad(BnMod(t, WoWN), 32), valid |-> KeyValid(t, WoWN)]

EmitOwn == (Mode = "own") =>
    \A t \in Targets, b \in Bs :
        LET c == OwnKeyCase(t, b) IN
        /\ ServerPub(WoWg, WoWN, c.v, c.b) = c.t           \* the solved verifier really yields the target
        /\ PrintT(<<"REPLAY", ToJson(c)>>)
=============================================================================
