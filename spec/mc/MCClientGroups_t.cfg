SPECIFICATION Spec
CONSTANTS
  Hash <- SHA1
  Primes = {2, 3, 5, 7, 11, 13, 17, 19, 23, 29, 31, 37, 41, 43, 47, 53, 59, 61, 67, 71, 73, 79, 83, 89, 97, 101, 103, 107, 109, 113, 127, 131, 137, 139, 149, 151, 157, 163, 167, 173, 179, 181, 191, 193, 197, 199, 211, 223, 227, 229, 233, 239, 241, 251, 257}
  Gens = {3, 7}
INVARIANT Emit
CHECK_DEADLOCK FALSE
