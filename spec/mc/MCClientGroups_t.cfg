SPECIFICATION Spec
CONSTANTS
  Hash <- SHA1
  Primes = {2, 3, 5, 7, 11, 13, 17, 19, 23, 29, 31, 37, 41, 43, 47, 53, 59, 61, 67, 71, 73, 79, 83, 89, 97, 101, 127, 131, 251, 257}
  Gens = {3}
INVARIANT Emit
CHECK_DEADLOCK FALSE
