SPECIFICATION Spec
CONSTANTS
  Seeds <- MCSeeds
  MaxCells = 48
  CountSample = {1, 3}
INVARIANTS CellsPartition CoordsOK
CHECK_DEADLOCK FALSE
