SPECIFICATION Spec
CONSTANTS
  Hash <- SHA1
  Exp = "wrath"
  EncSizes = {0, 1, 41}
  DecSizes = {0, 3}
  MaxOps = 5
  ProgLen = 4
  EmitSeq = FALSE
  EmitSched = FALSE
INVARIANTS Independent HTypeOK EmitInv
CHECK_DEADLOCK FALSE
