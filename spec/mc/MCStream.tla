------------------------------ MODULE MCStream ------------------------------
(***************************************************************************)
(* Exhaustive model of the Vanilla / TBC header cipher (C07, C08): sender  *)
(* and receiver in lock-step over one direction.  TLC visits every         *)
(* reachable cipher state (position i, previous byte p) and applies every  *)
(* input byte x: 40*256 (20*256) states, 256 transitions each.             *)
(*   InStep     the receiver's state equals the sender's after every byte  *)
(*   RoundTrip  the receiver recovers exactly the byte that was sent       *)
(*   Ranges     i stays below the key length, p and the output are bytes   *)
(*   Recurrence the ciphertext is (x XOR key[i]) + p mod 256               *)
(* plus chunk-independence of the fold (a call is the sequence of its      *)
(* bytes) on a family of splits, and the zero-length call as a stutter.    *)
(***************************************************************************)
EXTENDS StreamCipher

CONSTANTS Exp

K0 == [i \in 1..40 |-> (i * 37 + 11) % 256]
Key == CipherKey(Exp, K0)
KLen == IF Exp = "vanilla" THEN 40 ELSE 20

VARIABLES es, ds, rt
vars == <<es, ds, rt>>

Init == es = St0 /\ ds = St0 /\ rt = TRUE

Send(x) ==
    LET s == EncStep(Key, es, x)
        d == DecStep(Key, ds, s.o)
    IN /\ es' = [i |-> s.i, p |-> s.p]
       /\ ds' = [i |-> d.i, p |-> d.p]
       /\ rt' = /\ d.o = x
                /\ s.o = ((x ^^ Key[es.i + 1]) + es.p) % 256
                /\ s.o \in 0..255

Next == \E x \in 0..255 : Send(x)
Spec == Init /\ [][Next]_vars

InStep == es = ds
RoundTrip == rt
Ranges == es.i \in 0..(KLen - 1) /\ es.p \in 0..255 /\ Len(Key) = KLen

\* a call is the sequence of its bytes: any split of a stream gives the same bytes and state
Data(n) == [k \in 1..n |-> (k * 29 + 5) % 256]
ASSUME \A n \in {0, 1, 2, 39, 40, 41, 85}, cut \in {0, 1, 20, 39, 40, 41} :
          cut <= n =>
            LET whole == EncRun(Key, St0, Data(n))
                a == EncRun(Key, St0, SubSeq(Data(n), 1, cut))
                b == EncRun(Key, a[2], SubSeq(Data(n), cut + 1, n))
                dec == DecRun(Key, St0, whole[1])
            IN /\ a[1] \o b[1] = whole[1] /\ b[2] = whole[2]
               /\ dec[1] = Data(n) /\ dec[2] = whole[2]
               /\ EncRel(Key, St0, Data(n), whole[1]) /\ DecRel(Key, St0, whole[1], Data(n))
               /\ After(Key, St0, whole[1]) = whole[2]
ASSUME EncRun(Key, [i |-> 7, p |-> 99], <<>>) = << <<>>, [i |-> 7, p |-> 99] >>
=============================================================================
