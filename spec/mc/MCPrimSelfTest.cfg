INIT Init
NEXT Next
