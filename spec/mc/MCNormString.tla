---------------------------- MODULE MCNormString ----------------------------
(***************************************************************************)
(* Exhaustive model of credential-string normalisation (C13) over an       *)
(* alphabet of character CLASSES: lower, upper, digit, the punctuation the *)
(* repository's own list omits (" : ; \), space 0x20, ~ 0x7E, the control  *)
(* neighbours 0x1F and 0x7F, and 2-, 3- and 4-byte characters.             *)
(* All strings up to MaxN characters, every length around the 16-byte      *)
(* limit, every mixture of one multi-byte character with ASCII around the  *)
(* limit, a special character at every position of every length 1..17.     *)
(* Every string is also emitted and run through all constructors of the    *)
(* real NormalizedString.                                                  *)
(***************************************************************************)
EXTENDS NormString, FiniteSets, Json, TLC

CONSTANTS MaxN

Classes == {97, 90, 53, 34, 58, 59, 92, 32, 126, 31, 127, 233, 8364, 128512}
Special == {31, 127, 233, 8364, 128512, 58, 0}
Rep(c, n) == [k \in 1..n |-> c]

Short == UNION { [1..n -> Classes] : n \in 0..MaxN }
LenFamily == { Rep(97, n) : n \in 14..18 }
               \cup { Rep(97, n) \o <<c>> : n \in 10..17, c \in {233, 8364, 128512} }
               \cup { <<c>> \o Rep(66, n) : n \in 10..17, c \in {233, 8364, 128512} }
               \cup { Rep(233, n) : n \in 6..9 } \cup { Rep(8364, n) : n \in 4..6 } \cup { Rep(128512, n) : n \in 3..5 }
Positional == { [k \in 1..n |-> IF k = p THEN c ELSE 120] : n \in 1..17, p \in 1..17, c \in Special } 

VARIABLE s
Init == s \in Short \cup LenFamily \cup { x \in Positional : TRUE }
Next == UNCHANGED s
Spec == Init /\ [][Next]_s

R == Normalize(s)
Total == R.kind \in {"ok", "errLen", "errChar"}
AcceptIff == (R.kind = "ok") = (Utf8Total(s) >= 1 /\ Utf8Total(s) <= 16 /\ \A k \in 1..Len(s) : s[k] >= 32 /\ s[k] <= 126)
LengthFirst == (Utf8Total(s) = 0 \/ Utf8Total(s) > 16) => R.kind = "errLen"
FirstOffender == R.kind = "errChar" =>
                    \E k \in 1..Len(s) : /\ s[k] = R.cp /\ ~Allowed(s[k])
                                         /\ \A j \in 1..(k - 1) : Allowed(s[j])
Stored == R.kind = "ok" => (Len(R.text) = Len(s) /\
                            \A k \in 1..Len(s) : R.text[k] = (IF s[k] >= 97 /\ s[k] <= 122 THEN s[k] - 32 ELSE s[k]))
Inv == Total /\ AcceptIff /\ LengthFirst /\ FirstOffender /\ Stored /\ Idempotent(s) /\ CaseInsensitive(s)
EmitInv == PrintT(<<"REPLAY", ToJson([cps |-> s])>>)
=============================================================================
