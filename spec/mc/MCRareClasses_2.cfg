SPECIFICATION Spec
CONSTANTS
  Hash <- SHA1
  NShards = 16
  PerShard = 16384
  Want = 2
  Offset = 0
INVARIANT Search
CHECK_DEADLOCK FALSE
