------------------------------ MODULE MCMatrix ------------------------------
(***************************************************************************)
(* Matrix-card geometry (C18): for ALL (w, h) with 1 <= w*h <= 255 and     *)
(* digit counts 1..4 the cells, taken in printing order, are pairwise      *)
(* disjoint and cover the data exactly (their concatenation is the data);  *)
(* for a set of seeds and challenge counts the challenged cells are        *)
(* distinct and on the card; rounds outside 0..count-1 give no coordinate. *)
(***************************************************************************)
EXTENDS MatrixCard, FiniteSets

CONSTANTS Seeds, CountSample, MaxCells
MCSeeds == { <<0, 0, 0, 0, 0, 0, 0, 0>>, <<255, 255, 255, 255, 255, 255, 255, 255>>, <<7, 37, 90, 142, 37, 251, 66, 202>> }
VARIABLES w, h
Init == w \in 1..255 /\ h \in 1..255 /\ w * h <= MaxCells
Next == UNCHANGED <<w, h>>
Spec == Init /\ [][Next]_<<w, h>>

Pos(n) == [k \in 1..n |-> k % 251]
CellsPartition ==
    \A d \in 1..4 :
        LET data == Pos(d * w * h)
        IN /\ Concat([idx \in 1..(w * h) |-> Cell(d, w, data, (idx - 1) % w, (idx - 1) \div w)]) = data
           /\ Printed(d, data) = [idx \in 1..(w * h) |-> Cell(d, w, data, (idx - 1) % w, (idx - 1) \div w)]
Counts == {c \in CountSample \cup {w * h} : c >= 1 /\ c <= w * h}
CoordsOK ==
    \A seed \in Seeds, c \in Counts :
        LET cs == Coordinates(w, h, c, seed)
        IN /\ Len(cs) = c /\ Cardinality({cs[k] : k \in 1..c}) = c
           /\ \A k \in 1..c : cs[k] \in 0..(w * h - 1)
           /\ "none" \in DOMAIN Coord(w, h, c, seed, c) /\ "none" \in DOMAIN Coord(w, h, c, seed, 255)
=============================================================================
