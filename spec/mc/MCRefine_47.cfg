SPECIFICATION Spec
CONSTANTS
  Hash <- SHA1
  SrvG = 5
  NNat = 47
  SrvN <- MCSrvN
  Creds <- MCCreds3
  Salts = {1, 2}
INVARIANT Inv
INVARIANT AbsInv
PROPERTY Refines
CHECK_DEADLOCK FALSE
