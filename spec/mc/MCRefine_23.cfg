SPECIFICATION Spec
CONSTANTS
  Hash <- SHA1
  SrvG = 5
  NNat = 23
  SrvN <- MCSrvN
  Creds <- MCCreds1
  Salts = {1}
INVARIANT Inv
INVARIANT AbsInv
PROPERTY Refines
CHECK_DEADLOCK FALSE
