SPECIFICATION Spec
CONSTANTS
  Exp = "vanilla"
INVARIANTS InStep RoundTrip Ranges
CHECK_DEADLOCK FALSE
