SPECIFICATION Spec
CONSTANTS
  ChunkSizes = {0, 16384, 65536}
  MaxBytes = 140000
INVARIANTS InStep RoundTrip PermOK Disjoint Counters
CHECK_DEADLOCK FALSE
