SPECIFICATION Spec
CONSTANTS
  Hash <- SHA1
  Gens = {2, 7, 255}
  BuiltinGens = {2, 3, 5, 7, 11, 128, 255}
  Reps = 2
INVARIANT Emit
CHECK_DEADLOCK FALSE
