SPECIFICATION Spec
CONSTANTS
  ChunkSizes = {0, 7, 256}
  MaxBytes = 530
INVARIANTS InStep RoundTrip PermOK Disjoint Counters
CHECK_DEADLOCK FALSE
