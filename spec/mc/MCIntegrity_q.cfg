SPECIFICATION Spec
CONSTANTS
  MaxBytes = 4
INVARIANTS SameBytes SameHash EmitInv
CHECK_DEADLOCK FALSE
