SPECIFICATION Spec
CONSTANTS
  Hash <- SHA1
  Exp = "vanilla"
  EncSizes = {1, 40, 41}
  DecSizes = {0, 3}
  MaxOps = 4
  ProgLen = 3
  EmitSeq = TRUE
  EmitSched = TRUE
INVARIANTS Independent HTypeOK EmitInv
CHECK_DEADLOCK FALSE
