----------------------------- MODULE MCClientBig -----------------------------
(***************************************************************************)
(* Scenario generator for C03, client side, LARGE announced groups: the    *)
(* built-in prime with every announced generator of Gens, and the primes   *)
(* of module Primes (every byte length 2..32, top byte 0x01 and 0xFF, safe *)
(* primes, 2^255-19, 2^256-189) with generators of Gens; private keys and  *)
(* server keys derived from a hash counter.  Emits the expected M2 so that *)
(* the real client's acceptance of the specification's server proof is     *)
(* exercised; A, M1 and K are compared by TraceAuth.                       *)
(***************************************************************************)
EXTENDS Srp6, NormString, Primes, Json, FiniteSets, TLC

CONSTANTS Gens, BuiltinGens, Reps

RawUser == <<66, 105, 103>>          \* "Big"
RawPass == <<103, 82, 48, 117, 112, 115, 33>>   \* "gR0ups!"
Rand32(k) == SHA1(<<k % 256, k \div 256, 1>>) \o SubSeq(SHA1(<<k % 256, k \div 256, 2>>), 1, 12)

VARIABLES n, g, rep
vars == <<n, g, rep>>
Init == /\ n \in BigPrimes \cup {WoWN}
        /\ g \in (IF n = WoWN THEN BuiltinGens ELSE Gens)
        /\ rep \in 1..Reps
        /\ ~BnIsZero(BnMod(<<g>>, n))
Next == UNCHANGED vars
Spec == Init /\ [][Next]_vars

\* Fermat test to a few bases: the listed moduli are (probable) primes
Fermat == \A base \in {2, 3, 5, 7} : BnModExp(<<base>>, BnSubMod(n, <<1>>, n), n) = <<1>> \/ BnMod(<<base>>, n) = <<>>

Emit ==
    LET k    == rep * 1000 + g
        a    == Rand32(k)
        salt == Rand32(k + 7)
        B0   == Pad(BnMod(Rand32(k + 13), n), 32)
        B    == IF BnIsZero(B0) THEN Pad(<<1>>, 32) ELSE B0
        U    == Text(RawUser)
        P    == Text(RawPass)
        A    == ClientPub(g, n, a)
        S    == ClientS(g, n, B, X(U, P, salt), a, Uh(A, B))
        K    == SrpInterleave(S)
        m1   == M1(g, n, U, salt, A, B, K)
    IN /\ Fermat
       /\ (AllZero(S) \/ AllZero(A) \/
           PrintT(<<"REPLAY", ToJson([g |-> g, N |-> n, a |-> a, B |-> B, salt |-> salt, user |-> RawUser, pass |-> RawPass,
                                      M2 |-> M2(A, m1, K)])>>))
=============================================================================
