---------------------------- MODULE MCPrimSelfTest ----------------------------
(* Self-test of the primitive operators: TLC evaluates every ASSUME below.   *)
(* X is the (possibly Java-overridden) operator, XDef the TLA+ definition.   *)
(* Generated once by hand (vectors from FIPS 180, RFC 1321, RFC 2202,        *)
(* RFC 6229); committed as source.                                           *)
EXTENDS Prim, FiniteSets

Msg(n) == [i \in 1..n |-> (i * 7 + n) % 256]

ASSUME SHA1Def(<<97, 98, 99>>) = <<169, 153, 62, 54, 71, 6, 129, 106, 186, 62, 37, 113, 120, 80, 194, 108, 156, 208, 216, 157>>
ASSUME SHA1Def(<<>>) = <<218, 57, 163, 238, 94, 107, 75, 13, 50, 85, 191, 239, 149, 96, 24, 144, 175, 216, 7, 9>>
ASSUME SHA1Def(<<97, 98, 99, 100, 98, 99, 100, 101, 99, 100, 101, 102, 100, 101, 102, 103, 101, 102, 103, 104, 102, 103, 104, 105, 103, 104, 105, 106, 104, 105, 106, 107, 105, 106, 107, 108, 106, 107, 108, 109, 107, 108, 109, 110, 108, 109, 110, 111, 109, 110, 111, 112, 110, 111, 112, 113>>) = <<132, 152, 62, 68, 28, 59, 210, 110, 186, 174, 74, 161, 249, 81, 41, 229, 229, 70, 112, 241>>
ASSUME SHA1(<<97, 98, 99>>) = <<169, 153, 62, 54, 71, 6, 129, 106, 186, 62, 37, 113, 120, 80, 194, 108, 156, 208, 216, 157>>
\* every padding boundary: lengths 0..130
ASSUME \A n \in 0..130 : SHA1(Msg(n)) = SHA1Def(Msg(n))
ASSUME MD5(<<>>) = <<212, 29, 140, 217, 143, 0, 178, 4, 233, 128, 9, 152, 236, 248, 66, 126>>
ASSUME MD5(<<97, 98, 99>>) = <<144, 1, 80, 152, 60, 210, 79, 176, 214, 150, 63, 125, 40, 225, 127, 114>>
ASSUME MD5(<<49, 50, 51, 52, 53, 54, 55, 56, 57, 48, 49, 50, 51, 52, 53, 54, 55, 56, 57, 48, 49, 50, 51, 52, 53, 54, 55, 56, 57, 48, 49, 50, 51, 52, 53, 54, 55, 56, 57, 48, 49, 50, 51, 52, 53, 54, 55, 56, 57, 48, 49, 50, 51, 52, 53, 54, 55, 56, 57, 48, 49, 50, 51, 52, 53, 54, 55, 56, 57, 48, 49, 50, 51, 52, 53, 54, 55, 56, 57, 48>>) = <<87, 237, 244, 162, 43, 227, 201, 85, 172, 73, 218, 46, 33, 7, 182, 122>>
ASSUME HMACSHA1(<<11, 11, 11, 11, 11, 11, 11, 11, 11, 11, 11, 11, 11, 11, 11, 11, 11, 11, 11, 11>>, <<72, 105, 32, 84, 104, 101, 114, 101>>) = <<182, 23, 49, 134, 85, 5, 114, 100, 226, 139, 192, 182, 251, 55, 140, 142, 241, 70, 190, 0>>
ASSUME HMACSHA1(<<74, 101, 102, 101>>, <<119, 104, 97, 116, 32, 100, 111, 32, 121, 97, 32, 119, 97, 110, 116, 32, 102, 111, 114, 32, 110, 111, 116, 104, 105, 110, 103, 63>>) = <<239, 252, 223, 106, 229, 235, 47, 162, 210, 116, 22, 213, 241, 132, 223, 156, 37, 154, 124, 121>>
ASSUME HMACSHA1(<<170, 170, 170, 170, 170, 170, 170, 170, 170, 170, 170, 170, 170, 170, 170, 170, 170, 170, 170, 170, 170, 170, 170, 170, 170, 170, 170, 170, 170, 170, 170, 170, 170, 170, 170, 170, 170, 170, 170, 170, 170, 170, 170, 170, 170, 170, 170, 170, 170, 170, 170, 170, 170, 170, 170, 170, 170, 170, 170, 170, 170, 170, 170, 170, 170, 170, 170, 170, 170, 170, 170, 170, 170, 170, 170, 170, 170, 170, 170, 170>>, <<84, 101, 115, 116, 32, 85, 115, 105, 110, 103, 32, 76, 97, 114, 103, 101, 114, 32, 84, 104, 97, 110, 32, 66, 108, 111, 99, 107, 45, 83, 105, 122, 101, 32, 75, 101, 121, 32, 45, 32, 72, 97, 115, 104, 32, 75, 101, 121, 32, 70, 105, 114, 115, 116>>) = <<170, 74, 229, 225, 82, 114, 208, 14, 149, 112, 86, 55, 206, 138, 59, 85, 237, 64, 33, 18>>
Key5 == <<1, 2, 3, 4, 5>>
Key16 == <<1, 2, 3, 4, 5, 6, 7, 8, 9, 10, 11, 12, 13, 14, 15, 16>>
ASSUME RC4Apply(RC4Init(Key5), Zeros(16))[1] = <<178, 57, 99, 5, 240, 61, 192, 39, 204, 195, 82, 74, 10, 17, 24, 168>>
ASSUME RC4ApplyDef(RC4InitDef(Key5), Zeros(16))[1] = <<178, 57, 99, 5, 240, 61, 192, 39, 204, 195, 82, 74, 10, 17, 24, 168>>
ASSUME RC4Apply(RC4Init(Key16), Zeros(16))[1] = <<154, 199, 204, 154, 96, 157, 30, 247, 178, 147, 40, 153, 205, 228, 27, 151>>
ASSUME RC4Init(Key5) = RC4InitDef(Key5) /\ RC4Init(Key16) = RC4InitDef(Key16)
\* offset 1024 of RFC 6229 (what drop-1024 exposes): key 0102030405 -> 30abbcc7c20b01609f23ee2d5f6bb7df
ASSUME RC4Apply(RC4Apply(RC4Init(Key5), Zeros(1024))[2], Zeros(16))[1] = <<48, 171, 188, 199, 194, 11, 1, 96, 159, 35, 238, 45, 95, 107, 183, 223>>
\* override vs definition on 1100 bytes, and split application equals whole application
ASSUME LET d == Msg(1100)
           a == RC4Apply(RC4Init(Key16), d)
           b == RC4ApplyDef(RC4InitDef(Key16), d)
           p == RC4Apply(RC4Init(Key16), SubSeq(d, 1, 300))
           q == RC4Apply(p[2], SubSeq(d, 301, 1100))
       IN a = b /\ p[1] \o q[1] = a[1] /\ q[2] = a[2] /\ Rc4StateOK(a[2])

\* big numbers: all operand triples below 40 (modulus 1..40) and a spread up to 2^15
Small == 0..39
ASSUME \A a \in Small, b \in Small, n \in 1..40 :
          LET A == Nat2LE(a)  B == Nat2LE(b)  N == Nat2LE(n)
          IN /\ BnModExp(A, B, N) = BnModExpDef(A, B, N)
             /\ BnMulMod(A, B, N) = BnMulModDef(A, B, N)
             /\ BnAddMod(A, B, N) = BnAddModDef(A, B, N)
             /\ BnSubMod(A, B, N) = BnSubModDef(A, B, N)
             /\ BnMod(A, N) = BnModDef(A, N)
             /\ BnDiv(A, N) = BnDivDef(A, N)
             /\ BnMul(A, B) = BnMulDef(A, B)
             /\ BnAdd(A, B) = BnAddDef(A, B)
             /\ BnCmp(A, B) = BnCmpDef(A, B)
Spread == {0, 1, 2, 3, 255, 256, 257, 1000, 4095, 4096, 12345, 32749, 32767, 32768}
ASSUME \A a \in Spread, b \in Spread, n \in (Spread \ {0}) :
          LET A == Nat2LE(a)  B == Nat2LE(b)  N == Nat2LE(n)
          IN /\ BnModExp(A, B, N) = BnModExpDef(A, B, N)
             /\ BnMulMod(A, B, N) = BnMulModDef(A, B, N)
             /\ BnSubMod(A, B, N) = BnSubModDef(A, B, N)
             /\ BnDiv(A, N) = BnDivDef(A, N)
             /\ BnMul(A, B) = BnMulDef(A, B)
             /\ BnCmp(A, B) = BnCmpDef(A, B)
\* non-minimal encodings are accepted and results are minimal
ASSUME BnAdd(<<1, 0, 0>>, <<2, 0>>) = <<3>> /\ BnMod(<<5, 0>>, <<5>>) = <<>> /\ BnCmp(<<7, 0, 0>>, <<7>>) = 0
\* a 256-bit sanity vector: 7^2 mod N, N the WoW prime (little-endian)
ASSUME BnModExp(<<7>>, <<2>>, <<183, 155, 62, 42, 135, 130, 60, 171, 143, 94, 191, 191, 142, 177, 1, 8, 83, 80, 6, 41, 139, 91, 173, 189, 91, 83, 225, 137, 94, 100, 75, 137>>) = <<49>>

VARIABLE dummy
Init == dummy = 0
Next == UNCHANGED dummy
=============================================================================
