SPECIFICATION Spec
CONSTANTS
  Hash <- SHA1
  Primes2 = {65521, 65519, 49157, 32771, 32749, 257, 521}
  Mode = "scaled"
INVARIANTS Scaled
CHECK_DEADLOCK FALSE
