---------------------------- MODULE MCWrathHeader ----------------------------
(***************************************************************************)
(* Model of the Wrath server-header codec and the client decoder (C10).    *)
(*  (a) CodecOK for every size of a shard (all 2^23 sizes over the shards  *)
(*      in the thorough configuration) and a set of opcodes: length rule,  *)
(*      marker rule, decode(encode) = identity;                            *)
(*  (b) the decoder machine: all sequences of up to MaxLen headers over a  *)
(*      boundary set of sizes x opcodes x decoding paths on a real RC4     *)
(*      keystream pair; invariants: recovered = sent, consumed = emitted,  *)
(*      client decrypter in step with the server encrypter.                *)
(* Every maximal sequence is emitted (REPLAY) and replayed on real         *)
(* ServerCrypto / ClientCrypto objects.                                    *)
(***************************************************************************)
EXTENDS WrathCipher, Json, FiniteSets

CONSTANTS Sizes, Ops, Paths, MaxLen, ShardSize, NShards, SweepOps

K0 == [i \in 1..40 |-> (i * 41 + 3) % 256]

VARIABLES sv, cl, stash, hist, good, shard
vars == <<sv, cl, stash, hist, good, shard>>

Init == /\ sv = WrathInit("server", "enc", K0)
        /\ cl = WrathInit("client", "dec", K0)
        /\ stash = Zeros(4) /\ hist = <<>> /\ good = TRUE
        /\ shard \in 0..(NShards - 1)

Send(size, op, path) ==
    /\ Len(hist) < MaxLen /\ shard = 0
    /\ LET w  == EncodeServer(size, op)
           r  == WrathApply(sv, w)
           ct == r[1]
           a  == Attempt(cl, stash, SubSeq(ct, 1, 4))
           c  == IF a.need5 /\ Len(ct) = 5 THEN Complete(a.rc4, a.stash, ct[5]) ELSE a
           used == IF a.need5 THEN 5 ELSE 4
       IN /\ sv' = r[2]
          /\ cl' = c.rc4
          /\ stash' = a.stash
          /\ hist' = Append(hist, [size |-> size, opcode |-> op, path |-> path])
          /\ good' = /\ used = Len(ct)
                     /\ (a.need5 => Len(ct) = 5)
                     /\ c.header = [size |-> size, opcode |-> op]
    /\ UNCHANGED shard

Next == \E size \in Sizes, op \in Ops, path \in Paths : Send(size, op, path)
Spec == Init /\ [][Next]_vars

Recovered == good
InStep == sv = cl          \* same constant, same key, same number of keystream bytes consumed

\* (a) the codec on a whole shard of sizes
\* (evaluated once per shard: in the initial states only)
CodecShard == (Len(hist) = 0) =>
                 \A size \in (shard * ShardSize)..((shard + 1) * ShardSize - 1), op \in SweepOps :
                     size <= MaxSize => CodecOK(size, op)
CodecBoundary == (Len(hist) = 0 /\ shard = 0) => \A size \in Sizes, op \in Ops : CodecOK(size, op)

EmitInv == (shard = 0 /\ Len(hist) = MaxLen) => PrintT(<<"REPLAY", ToJson([seq |-> hist])>>)
=============================================================================
