SPECIFICATION Spec
CONSTANTS
  Hash <- SHA1
  Primes2 = {}
  Mode = "own"
INVARIANTS EmitOwn
CHECK_DEADLOCK FALSE
