SPECIFICATION Spec
CONSTANTS
  Hash <- SHA1
  NShards = 1024
  PerShard = 65536
  Want = 3
  Offset = 67108864
INVARIANT Search
CHECK_DEADLOCK FALSE
