SPECIFICATION Spec
CONSTANTS
  Hash <- SHA1
  SrvG = 5
  NNat = 23
  SrvN <- MCSrvN
  MaxTamper = 1
INVARIANT Inv
CHECK_DEADLOCK FALSE
