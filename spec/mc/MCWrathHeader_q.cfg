SPECIFICATION Spec
CONSTANTS
  Sizes = {0, 127, 32767, 32768, 65535, 65536, 98304, 4194304, 8388607}
  Ops = {0, 494, 65535}
  Paths = {0, 1}
  MaxLen = 2
  ShardSize = 4096
  NShards = 16
  SweepOps = {494}
INVARIANTS Recovered InStep CodecShard CodecBoundary EmitInv
CHECK_DEADLOCK FALSE
