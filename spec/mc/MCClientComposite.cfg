SPECIFICATION Spec
CONSTANTS
  Hash <- SHA1
INVARIANT Emit
CHECK_DEADLOCK FALSE
