SPECIFICATION Spec
CONSTANTS
  ShardSize = 14175
  NShards = 256
INVARIANT LayoutOK
CHECK_DEADLOCK FALSE
