SPECIFICATION Spec
CONSTANTS
  Hash <- SHA1
  Gens = {2, 3, 5, 7, 11, 13, 64, 128, 200, 255}
  BuiltinGens = {2, 3, 4, 5, 6, 7, 8, 9, 10, 11, 12, 13, 17, 19, 23, 29, 31, 37, 64, 100, 127, 128, 129, 200, 250, 251, 252, 253, 254, 255}
  Reps = 8
INVARIANT Emit
CHECK_DEADLOCK FALSE
