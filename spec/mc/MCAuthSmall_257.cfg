SPECIFICATION Spec
CONSTANTS
  Hash <- SHA1
  SrvG = 3
  NNat = 257
  SrvN <- MCSrvN
  Creds <- MCCreds1
  Salts = {1}
INVARIANT Inv
CHECK_DEADLOCK FALSE
