SPECIFICATION Spec
CONSTANTS
  Exp = "tbc"
INVARIANTS InStep RoundTrip Ranges
CHECK_DEADLOCK FALSE
