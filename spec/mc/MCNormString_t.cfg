SPECIFICATION Spec
CONSTANTS
  MaxN = 4
INVARIANTS Inv EmitInv
CHECK_DEADLOCK FALSE
