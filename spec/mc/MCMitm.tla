------------------------------- MODULE MCMitm -------------------------------
(***************************************************************************)
(* The login exchange of Auth with an active attacker on the wire (C02,    *)
(* C04, C14 at design level, composed).  Every value that crosses the      *)
(* network - B and the salt on their way to the client, A and M1 on their  *)
(* way to the server, M2 on its way back - passes through the attacker,    *)
(* who forwards it or replaces it:                                         *)
(*    public keys   by ANY 32-byte value below 2N + 2 (every residue in    *)
(*                  both of its representations, 0, N and 2N included)     *)
(*    the salt      by a one-bit change or an unrelated salt               *)
(*    a proof       by a one-bit change at either end, the all-zero proof, *)
(*                  the other side's proof or a proof from a session the   *)
(*                  attacker ran himself with a wrong password             *)
(* in a small prime group, for EVERY pair of private keys.  Real SHA-1,    *)
(* the same Srp6 formulas and field widths as at full size.                *)
(*                                                                         *)
(*   NoForgery      the server accepts only when A, M1 arrived unchanged   *)
(*                  and the client had seen the server's B and salt (or    *)
(*                  the attacker's own session happens to hold its key)    *)
(*   ClientNoForgery the client accepts only the M2 the server produced    *)
(*                  (so only after the server accepted)                    *)
(*   Untouched      when the attacker only forwards, both sides accept and *)
(*                  agree on the key                                       *)
(*   KeyRefused     a public key that is 0 modulo N is refused before any  *)
(*                  computation; every other replacement is a valid key    *)
(*   Total          no step ends in an undocumented panic                  *)
(***************************************************************************)
EXTENDS Auth, FiniteSets

CONSTANTS NNat, MaxTamper

MCSrvN == Pad(Nat2LE(NNat), 32)
Key(n) == Pad(Nat2LE(n), 32)
Salt0 == [i \in 1..32 |-> (5 * i + 1) % 256]
SaltX == [i \in 1..32 |-> (7 * i + 2) % 256]
Chal == [i \in 1..16 |-> 3 * i]
U0 == <<109, 105, 116, 109>>             \* "mitm"
P0 == <<115, 51, 99, 114, 51, 116>>      \* "s3cr3t"
PW == <<103, 117, 101, 115, 115>>        \* "guess" - the attacker's own attempt

VARIABLES phase,      \* 0 register, 1 proof, 2 B/salt in flight, 3 client, 4 A/M1 in flight, 5 server, 6 M2 in flight, 7 client verdict, 8 done
          net,        \* the values as they arrive: [B, salt, A, m1, m2]
          orig,       \* the values as they were sent
          tampered,   \* number of replaced values
          verdict     \* [server |-> "none" | "ok" | "err" | "keyerr", client |-> likewise]
mvars == <<obj, out, phase, net, orig, tampered, verdict>>

None20 == [i \in 1..20 |-> 0]
None32 == [i \in 1..32 |-> 0]
Blank == [B |-> None32, salt |-> None32, A |-> None32, m1 |-> None20, m2 |-> None20]

Init == /\ AuthInit /\ phase = 0 /\ net = Blank /\ orig = Blank /\ tampered = 0
        /\ verdict = [server |-> "none", client |-> "none"]

Reg == /\ phase = 0 /\ Register("v", U0, P0, Salt0) /\ phase' = 1
       /\ UNCHANGED <<net, orig, tampered, verdict>>

Prf == /\ phase = 1
       /\ \E b \in 1..(NNat - 1) : IntoProof("v", "p", Key(b))
       /\ IF out'.kind = "ok"
          THEN /\ phase' = 2
               /\ orig' = [orig EXCEPT !.B = out'.B, !.salt = out'.salt]
               /\ net' = [net EXCEPT !.B = out'.B, !.salt = out'.salt]
          ELSE phase' = 99 /\ UNCHANGED <<orig, net>>
       /\ UNCHANGED <<tampered, verdict>>

\* the attacker replaces B and / or the salt
PubKeys == { Key(n) : n \in 0..(2 * NNat + 1) }
TamperB ==
    /\ phase = 2 /\ tampered < MaxTamper
    /\ \E k \in PubKeys \ {orig.B} : net' = [net EXCEPT !.B = k]
    /\ tampered' = tampered + 1 /\ phase' = 21
    /\ UNCHANGED <<obj, out, orig, verdict>>
TamperSalt ==
    /\ phase \in {2, 21} /\ tampered < MaxTamper
    /\ \E s \in {FlipBit(orig.salt, 1), FlipBit(orig.salt, 256), SaltX} : net' = [net EXCEPT !.salt = s]
    /\ tampered' = tampered + 1 /\ phase' = 22
    /\ UNCHANGED <<obj, out, orig, verdict>>

\* the client: parses B (PublicKey::from_le_bytes), then SrpClientChallenge::new
Cli == /\ phase \in {2, 21, 22}
       /\ IF ~KeyValid(net.B, SrvN)
          THEN /\ verdict' = [verdict EXCEPT !.client = "keyerr"] /\ phase' = 8
               /\ UNCHANGED <<obj, out, net, orig>>
          ELSE /\ \E a \in 1..(NNat - 1) : ClientNew("c", U0, P0, SrvG, SrvN, net.B, net.salt, Key(a))
               /\ IF out'.kind = "ok"
                  THEN /\ phase' = 4
                       /\ orig' = [orig EXCEPT !.A = out'.A, !.m1 = out'.M1]
                       /\ net' = [net EXCEPT !.A = out'.A, !.m1 = out'.M1]
                  ELSE phase' = 99 /\ UNCHANGED <<orig, net>>
               /\ UNCHANGED verdict
       /\ UNCHANGED tampered

\* a session the attacker runs himself against the same server values, with a guessed password
AttackerM1 == LET a == 2
                  A == ClientPub(SrvG, SrvN, Key(a))
                  K == ClientK(SrvG, SrvN, Text(U0), Text(PW), orig.salt, A, orig.B, Key(a))
              IN <<A, M1(SrvG, SrvN, Text(U0), orig.salt, A, orig.B, K), K>>

TamperA ==
    /\ phase = 4 /\ tampered < MaxTamper
    /\ \E k \in PubKeys \ {orig.A} : net' = [net EXCEPT !.A = k]
    /\ tampered' = tampered + 1 /\ phase' = 41
    /\ UNCHANGED <<obj, out, orig, verdict>>
TamperM1 ==
    /\ phase \in {4, 41} /\ tampered < MaxTamper
    /\ \E m \in ({FlipBit(orig.m1, 1), FlipBit(orig.m1, 160), None20, AttackerM1[2]}) \ {orig.m1} :
          net' = [net EXCEPT !.m1 = m]
    /\ tampered' = tampered + 1 /\ phase' = 42
    /\ UNCHANGED <<obj, out, orig, verdict>>
\* the attacker presents his own session instead (both values replaced at once; counted as one replacement)
OwnSession ==
    /\ phase = 4 /\ tampered < MaxTamper /\ AttackerM1[1] # orig.A
    /\ net' = [net EXCEPT !.A = AttackerM1[1], !.m1 = AttackerM1[2]]
    /\ tampered' = tampered + 1 /\ phase' = 42
    /\ UNCHANGED <<obj, out, orig, verdict>>

\* the server: parses A, then SrpProof::into_server
Srv == /\ phase \in {4, 41, 42}
       /\ IF ~KeyValid(net.A, SrvN)
          THEN /\ verdict' = [verdict EXCEPT !.server = "keyerr"] /\ phase' = 8
               /\ UNCHANGED <<obj, out, net, orig>>
          ELSE /\ IntoServer("p", "s", net.A, net.m1, Chal)
               /\ verdict' = [verdict EXCEPT !.server = out'.kind]
               /\ IF out'.kind = "ok"
                  THEN /\ phase' = 6
                       /\ orig' = [orig EXCEPT !.m2 = out'.M2]
                       /\ net' = [net EXCEPT !.m2 = out'.M2]
                  ELSE phase' = 8 /\ UNCHANGED <<orig, net>>
       /\ UNCHANGED tampered

TamperM2 ==
    /\ phase = 6 /\ tampered < MaxTamper
    /\ \E m \in ({FlipBit(orig.m2, 1), FlipBit(orig.m2, 160), None20, orig.m1}) \ {orig.m2} :
          net' = [net EXCEPT !.m2 = m]
    /\ tampered' = tampered + 1 /\ phase' = 61
    /\ UNCHANGED <<obj, out, orig, verdict>>

\* the client's verdict on M2; when the server refused, the attacker may still send the client something
Vsp == /\ phase \in {6, 61}
       /\ VerifyServerProof("c", "k", net.m2)
       /\ verdict' = [verdict EXCEPT !.client = out'.kind]
       /\ phase' = 8
       /\ UNCHANGED <<net, orig, tampered>>
FakeM2 ==
    /\ phase = 8 /\ verdict.server = "err" /\ verdict.client = "none" /\ Has("c", "challenge")
    /\ \E m \in {None20, orig.m1, net.m1} : VerifyServerProof("c", "k", m) /\ net' = [net EXCEPT !.m2 = m]
    /\ verdict' = [verdict EXCEPT !.client = out'.kind]
    /\ phase' = 9
    /\ UNCHANGED <<orig, tampered>>

Next == Reg \/ Prf \/ TamperB \/ TamperSalt \/ Cli \/ TamperA \/ TamperM1 \/ OwnSession \/ Srv \/ TamperM2 \/ Vsp \/ FakeM2
Spec == Init /\ [][Next]_mvars

---------------------------------------------------------------------------
\* In a group of NNat elements the attacker's guessed password can lead to the server's secret by coincidence (at full
\* size: with negligible probability); the server then accepts a party that holds its key, which is what it promises.
NoForgery ==
    verdict.server = "ok" =>
        \/ (net.A = orig.A /\ net.m1 = orig.m1 /\ net.B = orig.B /\ net.salt = orig.salt)
        \/ (net.A = AttackerM1[1] /\ net.m1 = AttackerM1[2] /\ obj["s"].K = AttackerM1[3])
ClientNoForgery ==
    verdict.client = "ok" => (verdict.server = "ok" /\ net.m2 = orig.m2)
Untouched ==
    (phase = 8 /\ tampered = 0) => (verdict.server = "ok" /\ verdict.client = "ok" /\ obj["s"].K = obj["k"].K)
Zero(k) == BnIsZero(BnMod(k, SrvN))
KeyRefused ==
    /\ verdict.server = "keyerr" => Zero(net.A)
    /\ verdict.server \in {"ok", "err"} => ~Zero(net.A)
    /\ verdict.client = "keyerr" => Zero(net.B)
    /\ "c" \in DOMAIN obj => ~Zero(net.B)          \* a client object exists only for a valid B
\* a refusal leaves no session object behind
NoSessionOnRefusal ==
    /\ verdict.server \in {"err", "keyerr"} => ~Has("s", "server")
    /\ verdict.client \in {"err", "keyerr"} => ~Has("k", "client")
Inv == TypeOK /\ Total /\ NoForgery /\ ClientNoForgery /\ Untouched /\ KeyRefused /\ NoSessionOnRefusal
=============================================================================
