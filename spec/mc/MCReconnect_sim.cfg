SPECIFICATION Spec
CONSTANTS
  Hash <- SymHash
  SrvG = 7
  SrvN <- WoWN
  MaxLen = 40
  Emit = TRUE
INVARIANTS ReconnectIff LegitAlwaysReconnects ChallengeSingleUse DrawsFresh EmitInv
CHECK_DEADLOCK FALSE
