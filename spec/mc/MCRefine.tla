------------------------------ MODULE MCRefine ------------------------------
(***************************************************************************)
(* Refinement: the concrete login machine of Auth in a small prime group   *)
(* (MCAuthSmall: every private-key pair, several credentials and salts,    *)
(* honest spellings and wrong passwords, real SHA-1 and arithmetic)        *)
(* implements the abstract protocol SessionAbs under the mapping below.    *)
(* TLC checks  Spec => Abs!ASpec  (every concrete step is an abstract step *)
(* or a stutter) and the abstract invariants on the mapped state.          *)
(***************************************************************************)
EXTENDS MCAuthSmall

\* phases of MCAuthSmall: 0 register, 1 into_proof, 2 client, 3 into_server, 4 accepted, 5 client verdict,
\* 8 server refused, 9 a side's own key was unusable (documented panic)
KeyOf(o, st) == IF Has(o, st) THEN obj[o].K ELSE <<>>

aSrv == CASE phase \in {0, 1} -> "idle"
          [] phase \in {2, 3} -> "offered"
          [] phase \in {4, 5} -> "accepted"
          [] OTHER -> "refused"
aCli == CASE phase \in {0, 1, 2} -> "idle"
          [] phase \in {3, 4} -> "proved"
          [] phase = 5 -> IF out.kind = "ok" THEN "accepted" ELSE "refused"
          [] phase = 8 -> "proved"
          [] OTHER -> "refused"
aSKey == IF phase \in {4, 5} THEN KeyOf("s", "server") ELSE <<>>
aCKey == CASE phase \in {3, 4, 8} -> KeyOf("c", "challenge")
           [] phase = 5 -> KeyOf("k", "client")
           [] OTHER -> <<>>

AllKeys == { k \in [1..40 -> 0..255] : TRUE }    \* never enumerated: only membership is tested

Abs == INSTANCE SessionAbs WITH Keys <- AllKeys, srv <- aSrv, cli <- aCli, sKey <- aSKey, cKey <- aCKey

Refines == Abs!ASpec
AbsInv == Abs!AgreeWhenBothAccept /\ Abs!NoKeyOnRefusal /\ Abs!ClientOnlyAfterServer
=============================================================================
