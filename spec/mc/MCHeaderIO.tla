----------------------------- MODULE MCHeaderIO -----------------------------
(***************************************************************************)
(* The I/O environment of the Read / Write header wrappers (C11).          *)
(* TLC enumerates, for every header kind (vanilla / tbc / wrath; server 4, *)
(* wrath-long 5, client 6 bytes), EVERY composition of its length into     *)
(* fragments, an Interrupted inserted at every position, and a failure at  *)
(* EVERY byte offset for each error kind (plus the no-failure case), on    *)
(* the read side and on the write side; checks the environment-level facts *)
(* of the specification's ReadExact / WriteAll on each; and emits each     *)
(* template (REPLAY) for the harness to build real scripted readers and    *)
(* writers from.                                                           *)
(***************************************************************************)
EXTENDS Headers, Json, FiniteSets

CONSTANTS ReadKinds, WriteKinds, IntrChoices

HeaderKinds == { <<"vanilla", "server", 4>>, <<"vanilla", "client", 6>>,
                 <<"tbc", "server", 4>>, <<"tbc", "client", 6>>,
                 <<"wrath", "server", 4>>, <<"wrath", "serverLong", 5>>, <<"wrath", "client", 6>> }

\* compositions of n: cut masks over the n-1 inner positions
RECURSIVE CompOf(_, _, _, _)
CompOf(n, mask, pos, cur) ==      \* mask bit k set = cut after byte k+1
    IF pos = n THEN <<cur>>
    ELSE IF (mask \div (2 ^ (pos - 1))) % 2 = 1
         THEN <<cur>> \o CompOf(n, mask, pos + 1, 1)
         ELSE CompOf(n, mask, pos + 1, cur + 1)
Compositions(n) == { CompOf(n, m, 1, 1) : m \in 0..(2 ^ (n - 1) - 1) }

NoFail == [none |-> TRUE]
Fails(n, kinds) == {NoFail} \cup { [at |-> k, kind |-> e] : k \in 0..(n - 1), e \in kinds }

VARIABLE tp
vars == <<tp, half, hout>>
Init == HInit /\ \E hk \in HeaderKinds, side \in {"read", "write"} :
          \E frags \in Compositions(hk[3]) :
            \E intr \in ({<<>>} \cup { <<k>> : k \in (0..Len(frags)) \cap IntrChoices }) :
              \E fail \in Fails(hk[3], IF side = "read" THEN ReadKinds ELSE WriteKinds) :
                 tp = [exp |-> hk[1], kind |-> hk[2], len |-> hk[3], side |-> side,
                      frags |-> frags, intr |-> intr, fail |-> fail]
Next == UNCHANGED vars
Spec == Init /\ [][Next]_vars

---------------------------------------------------------------------------
Bytes0(n) == [k \in 1..n |-> 16 * k + 1]
FailAt == IF "at" \in DOMAIN tp.fail THEN tp.fail.at ELSE tp.len

\* the reader script the template describes (the harness builds the same from real ciphertext)
RECURSIVE RScript(_, _, _)
RScript(k, off, acc) ==
    IF k > Len(tp.frags) \/ off >= FailAt THEN acc
    ELSE LET pre == IF \E j \in 1..Len(tp.intr) : tp.intr[j] = k - 1 THEN <<[t |-> "intr"]>> ELSE <<>>
             n0 == tp.frags[k]
             n  == IF off + n0 > FailAt THEN FailAt - off ELSE n0
             d  == IF n > 0 THEN <<[t |-> "data", b |-> SubSeq(Bytes0(tp.len), off + 1, off + n)]>> ELSE <<>>
         IN RScript(k + 1, off + n, acc \o pre \o d)
ReaderScript ==
    LET body == RScript(1, 0, <<>>)
    IN IF "at" \in DOMAIN tp.fail
       THEN IF tp.fail.kind = "UnexpectedEof" THEN body ELSE body \o <<[t |-> "err", kind |-> tp.fail.kind]>>
       ELSE body

RECURSIVE WScript(_, _, _)
WScript(k, off, acc) ==
    IF k > Len(tp.frags) \/ off >= FailAt THEN acc
    ELSE LET pre == IF \E j \in 1..Len(tp.intr) : tp.intr[j] = k - 1 THEN <<[t |-> "intr"]>> ELSE <<>>
             n0 == tp.frags[k]
             n  == IF off + n0 > FailAt THEN FailAt - off ELSE n0
             d  == IF n > 0 THEN <<[t |-> "accept", n |-> n]>> ELSE <<>>
         IN WScript(k + 1, off + n, acc \o pre \o d)
WriterScript ==
    LET body == WScript(1, 0, <<>>)
    IN IF "at" \in DOMAIN tp.fail
       THEN IF tp.fail.kind = "WriteZero" THEN body \o <<[t |-> "accept", n |-> 0]>>
            ELSE body \o <<[t |-> "err", kind |-> tp.fail.kind]>>
       ELSE body

\* environment-level facts of the specification
ReadFacts ==
    tp.side = "read" =>
      LET need == IF tp.kind = "serverLong" THEN 5 ELSE tp.len
          r == ReadExact(ReaderScript, need, <<>>)
      IN IF "at" \in DOMAIN tp.fail
         THEN ~r.ok /\ r.kind = tp.fail.kind            \* a failure before the header is complete is an error of that kind
         ELSE r.ok /\ r.bytes = Bytes0(tp.len)          \* fragmentation and interruptions change nothing
WriteFacts ==
    tp.side = "write" =>
      LET w == WriteAll(WriterScript, Bytes0(tp.len), <<>>)
      IN IF "at" \in DOMAIN tp.fail
         THEN ~w.ok /\ w.kind = tp.fail.kind /\ w.delivered = SubSeq(Bytes0(tp.len), 1, tp.fail.at)
         ELSE w.ok /\ w.delivered = Bytes0(tp.len)

EmitInv == PrintT(<<"REPLAY", ToJson([exp |-> tp.exp, kind |-> tp.kind, side |-> tp.side, frags |-> tp.frags,
                                      intr |-> tp.intr, fail |-> tp.fail])>>)
=============================================================================
