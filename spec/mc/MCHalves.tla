------------------------------ MODULE MCHalves ------------------------------
(***************************************************************************)
(* Independence of the two directions, split / clone / unsplit (C12).      *)
(* One connection of expansion Exp; operations                             *)
(*    enc(n), dec(n)   a chunk of n bytes on the sending / receiving half  *)
(*    split, unsplit   (structure only: the halves are the same halves)    *)
(*    clone            the clone continues AND the original continues      *)
(* TLC explores ALL interleavings up to MaxOps operations and checks that  *)
(* each direction's state is the state of a reference object that saw only *)
(* that direction's bytes (the halves share nothing), whatever the         *)
(* interleaving and structure changes were.  Second part: two threads,     *)
(* each owning one half with a program of calls; all schedules.            *)
(* Sequences and schedules are emitted (REPLAY) for replay on real         *)
(* objects and real threads.                                               *)
(***************************************************************************)
EXTENDS Headers, Json, FiniteSets

CONSTANTS Exp, EncSizes, DecSizes, MaxOps, ProgLen, EmitSeq, EmitSched

K0 == [i \in 1..40 |-> (i * 13 + 1) % 256]
Byte0(k) == (k * 31 + 7) % 256

VARIABLES ops,      \* operations so far
          nEnc, nDec,        \* bytes pushed through each direction
          whole,    \* TRUE while the object is combined
          clones,   \* number of clones taken
          mode, sched        \* "seq" or "threads"; schedule so far (thread ids)
vars == <<half, hout, ops, nEnc, nDec, whole, clones, mode, sched>>

HE == "e"
HD == "d"

Init == /\ half = [x \in {HE, HD} |-> IF x = HE THEN NewHalf(Exp, "client", "enc", K0) ELSE NewHalf(Exp, "client", "dec", K0)]
        /\ hout = [kind |-> "none"]
        /\ ops = <<>> /\ nEnc = 0 /\ nDec = 0 /\ whole = TRUE /\ clones = 0
        /\ mode \in {"seq", "threads"} /\ sched = <<>>

Chunk(from, n) == [k \in 1..n |-> Byte0(from + k)]

Enc(n) == /\ Call(HE, Chunk(nEnc, n)) /\ nEnc' = nEnc + n /\ UNCHANGED nDec
Dec(n) == /\ Call(HD, Chunk(nDec, n)) /\ nDec' = nDec + n /\ UNCHANGED nEnc

SeqStep ==
    /\ mode = "seq" /\ Len(ops) < MaxOps
    /\ \/ \E n \in EncSizes : Enc(n) /\ ops' = Append(ops, [op |-> "enc", n |-> n]) /\ UNCHANGED <<whole, clones>>
       \/ \E n \in DecSizes : Dec(n) /\ ops' = Append(ops, [op |-> "dec", n |-> n]) /\ UNCHANGED <<whole, clones>>
       \/ /\ whole /\ whole' = FALSE /\ ops' = Append(ops, [op |-> "split"])
          /\ UNCHANGED <<half, hout, nEnc, nDec, clones>>
       \/ /\ ~whole /\ Exp = "vanilla" /\ Unsplit(HE, HD) /\ hout'.kind = "ok" /\ whole' = TRUE
          /\ ops' = Append(ops, [op |-> "unsplit"]) /\ UNCHANGED <<nEnc, nDec, clones>>
       \/ /\ clones < 1 /\ clones' = clones + 1 /\ ops' = Append(ops, [op |-> "clone"])
          /\ UNCHANGED <<half, hout, nEnc, nDec, whole>>
    /\ UNCHANGED <<mode, sched>>

\* two threads: thread 0 owns the encrypter, thread 1 the decrypter, ProgLen calls each
Count(s, w) == Cardinality({k \in 1..Len(s) : s[k] = w})
ThreadStep ==
    /\ mode = "threads"
    /\ \E w \in {0, 1} :
         /\ Count(sched, w) < ProgLen
         /\ sched' = Append(sched, w)
         /\ LET n == (Len(sched) % 3) * 7 + 1 IN IF w = 0 THEN Enc(n) ELSE Dec(n)
    /\ UNCHANGED <<ops, whole, clones, mode>>

Next == SeqStep \/ ThreadStep
Spec == Init /\ [][Next]_vars

\* each direction equals a reference object that saw only that direction's bytes
RefEnc == Apply(NewHalf(Exp, "client", "enc", K0), Chunk(0, nEnc))[2]
RefDec == Apply(NewHalf(Exp, "client", "dec", K0), Chunk(0, nDec))[2]
Independent == half[HE] = RefEnc /\ half[HD] = RefDec

EmitInv ==
    /\ (EmitSeq /\ mode = "seq" /\ Len(ops) = MaxOps) => PrintT(<<"REPLAY", ToJson([t |-> "seq", ops |-> ops])>>)
    /\ (EmitSched /\ mode = "threads" /\ Len(sched) = 2 * ProgLen) =>
          PrintT(<<"REPLAY", ToJson([t |-> "sched", sched |-> sched,
                                     sizes |-> [k \in 1..Len(sched) |-> ((k - 1) % 3) * 7 + 1]])>>)
=============================================================================
