---------------------------- MODULE MCClientGroups ----------------------------
(***************************************************************************)
(* Scenario generator for C03 (client side, announced groups).             *)
(* For every prime N in Primes and generator g in Gens with N not dividing *)
(* g, TLC enumerates ALL private keys a in 0..N-1 and ALL server keys       *)
(* B in 1..N-1 (and, for a few a, unreduced B in N+1..2N-1), computes the  *)
(* expected handshake with the Srp6 formulas, checks the design-level      *)
(* facts below, and emits one REPLAY line per case; the harness runs the   *)
(* real SrpClientChallenge::new with that announced group and injected a,  *)
(* and the recorded trace is validated against TraceAuth.                  *)
(* Cases whose secret S is 0 (B = k*v mod N) are excluded here (C14).      *)
(***************************************************************************)
EXTENDS Srp6, NormString, Json, FiniteSets

CONSTANTS Primes, Gens

Key(n) == Pad(Nat2LE(n), 32)
RawUser == <<85, 49>>            \* "U1" as typed
RawPass == <<112, 58, 87>>       \* "p:W" as typed
User == Text(RawUser)            \* normalised, as the formulas expect
Pass == Text(RawPass)
Salt == [i \in 1..32 |-> (i * 11 + 3) % 256]

VARIABLES n, g, a
vars == <<n, g, a>>

Init == /\ n \in Primes /\ g \in {x \in Gens : x % n # 0} /\ a \in 0..(n - 1)
Next == UNCHANGED vars
Spec == Init /\ [][Next]_vars

Bs == (1..(n - 1)) \cup (IF a \in {0, 1, n - 1} THEN (n + 1)..(2 * n - 1) ELSE {})

Case(B) ==
    LET N  == Key(n)
        A  == ClientPub(g, N, Key(a))
        x  == X(User, Pass, Salt)
        S  == ClientS(g, N, Key(B), x, Key(a), Uh(A, Key(B)))
        K  == SrpInterleave(S)
        m1 == M1(g, N, User, Salt, A, Key(B), K)
    IN [g |-> g, N |-> N, a |-> Key(a), B |-> Key(B), salt |-> Salt, user |-> RawUser, pass |-> RawPass,
        S0 |-> AllZero(S), A |-> A, M1 |-> m1, M2 |-> M2(A, m1, K), z |-> LeadingZeros(S)]

\* design-level facts, for every enumerated case
CaseOK(c) ==
    /\ Len(c.A) = 32 /\ ~AllZero(c.A)                 \* A = g^a mod N is a valid key (N prime, N not | g)
    /\ c.S0 = BnIsZero(BnSubMod(c.B, BnMul(K3, Verifier(c.g, c.N, User, Pass, Salt)), c.N))
                                                      \* S = 0 exactly when B = k*v (mod N)

Emit == \A B \in Bs :
          LET c == Case(B)
          IN /\ CaseOK(c)
             /\ (c.S0 \/ PrintT(<<"REPLAY", ToJson([g |-> c.g, N |-> c.N, a |-> c.a, B |-> c.B, salt |-> c.salt,
                                                     user |-> c.user, pass |-> c.pass, M2 |-> c.M2])>>))
=============================================================================
