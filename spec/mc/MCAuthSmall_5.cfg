SPECIFICATION Spec
CONSTANTS
  Hash <- SHA1
  SrvG = 2
  NNat = 5
  SrvN <- MCSrvN
  Creds <- MCCreds3
  Salts = {1, 2}
INVARIANT Inv
CHECK_DEADLOCK FALSE
