SPECIFICATION Spec
CONSTANTS
  Hash <- SHA1
  ReadKinds = {"UnexpectedEof", "ConnectionReset", "WouldBlock", "TimedOut", "Other"}
  WriteKinds = {"BrokenPipe", "WriteZero", "WouldBlock", "TimedOut", "Other"}
  IntrChoices = {0, 1, 2}
INVARIANTS ReadFacts WriteFacts EmitInv
CHECK_DEADLOCK FALSE
