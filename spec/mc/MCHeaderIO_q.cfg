SPECIFICATION Spec
CONSTANTS
  Hash <- SHA1
  ReadKinds = {"UnexpectedEof", "ConnectionReset"}
  WriteKinds = {"BrokenPipe", "WriteZero"}
  IntrChoices = {0, 1, 2}
INVARIANTS ReadFacts WriteFacts EmitInv
CHECK_DEADLOCK FALSE
