------------------------------ MODULE MCVectors ------------------------------
(***************************************************************************)
(* Self-validation of the SPECIFICATION against the vectors the upstream   *)
(* author produced from other implementations (converted copies of the     *)
(* repository's files under spec/vectors, see tools/convert_vectors.py):   *)
(* the spec must reproduce them before it is allowed to judge the code.    *)
(* This protects against false alarms from a spec that misreads the        *)
(* protocol.                                                               *)
(***************************************************************************)
EXTENDS Srp6, StreamCipher, WrathCipher, Pin, Integrity, MatrixCard, Json, IOUtils, FiniteSets

CONSTANT NFiles

VARIABLE f
Init == f \in 0..(NFiles - 1)
Next == UNCHANGED f
Spec == Init /\ [][Next]_f

FileName(k) == IOEnv.VECTORS \o "/vectors." \o (IF k < 10 THEN "0" ELSE "") \o ToString(k) \o ".ndjson"

Check(v) ==
    CASE v.fn = "x"          -> X(v.U, v.P, v.salt) = v.exp
      [] v.fn = "v"          -> Verifier(WoWg, WoWN, v.U, v.P, v.salt) = v.exp
      [] v.fn = "B"          -> ServerPub(WoWg, WoWN, v.v, v.b) = v.exp
      [] v.fn = "A"          -> ClientPub(WoWg, WoWN, v.a) = v.exp
      [] v.fn = "u"          -> Uh(v.A, v.B) = v.exp
      [] v.fn = "S"          -> ServerS(WoWN, v.A, v.v, v.u, v.b) = v.exp
      [] v.fn = "clientS"    -> ClientS(WoWg, WoWN, v.B, v.x, v.a, v.u) = v.exp
      [] v.fn = "interleave" -> SrpInterleave(v.S) = v.exp
      [] v.fn = "sessionKey" -> ServerK(WoWN, v.A, ServerPub(WoWg, WoWN, v.v, v.b), v.v, v.b) = v.exp
      [] v.fn = "M1"         -> M1(WoWg, WoWN, v.U, v.salt, v.A, v.B, v.K) = v.exp
      [] v.fn = "M2"         -> M2(v.A, v.M1, v.K) = v.exp
      [] v.fn = "reconnect"  -> ReconnectProof(v.U, v.cdata, v.sdata, v.K) = v.exp
      [] v.fn = "world"      -> WorldProof(v.U, v.cseed, v.sseed, v.K) = v.exp
      [] v.fn = "vanillaEnc" -> EncRun(CipherKey("vanilla", v.K), St0, v.data)[1] = v.exp
      [] v.fn = "vanillaDec" -> DecRun(CipherKey("vanilla", v.K), St0, v.data)[1] = v.exp
      [] v.fn = "tbcEnc"     -> /\ EncRun(CipherKey("tbc", v.K), St0, v.data)[1] = v.exp
                                /\ EncRun(CipherKey("tbc", v.K), St0, v.data)[1] = v.exp2
                                /\ DecRun(CipherKey("tbc", v.K), St0, v.exp)[1] = v.data
      [] v.fn = "wrathEnc"   -> /\ WrathApply(WrathInit("client", "enc", v.K), v.data)[1] = v.exp
                                /\ WrathApply(WrathInit("server", "dec", v.K), v.exp)[1] = v.data
                                /\ WrathApply(WrathInit("server", "enc", v.K), v.data)[1] = v.exp2
                                /\ WrathApply(WrathInit("client", "dec", v.K), v.exp2)[1] = v.data
      [] v.fn = "pin"        -> HasHash(v.pin) /\ PinHash(v.pin, v.seed, v.ssalt, v.csalt) = v.exp
      [] v.fn = "integrity"  -> IntegrityCheck(v.files, v.salt, v.key) = v.exp
      [] v.fn = "integrityReconnect" -> ReconnectCheck(v.salt) = v.exp
      [] v.fn = "cardProof"  -> CardProof(v.seed, v.K, v.entered) = v.exp
      [] v.fn = "cardCoords" -> \A r \in 1..v.count :
                                   LET c == Coord(v.w, v.h, v.count, v.seed, r - 1) IN <<c.x, c.y>> = v.exp[r]
      [] OTHER -> FALSE

AllReproduced ==
    \A vs \in {ndJsonDeserialize(FileName(f))} :
        LET badIdx == {k \in 1..Len(vs) : ~Check(vs[k])}
        IN IF badIdx = {} THEN TRUE ELSE PrintT(<<"VECTOR-MISMATCH", f, badIdx>>) /\ FALSE
=============================================================================
