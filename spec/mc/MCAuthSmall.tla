----------------------------- MODULE MCAuthSmall -----------------------------
(***************************************************************************)
(* Exhaustive model of the login exchange in a small prime group (C01,     *)
(* C02, C14 design level).  The concrete instance of Auth: real SHA-1,     *)
(* real arithmetic, the same Srp6 formulas and 32-byte fields as at full   *)
(* size; only the group (SrvG, NNat) is small, so TLC can enumerate ALL    *)
(* private keys a, b in 0..N-1 - every sign of B - k*v, every zero-padded  *)
(* result, every reduction class of u*x - for several credentials, salts   *)
(* and client spellings (honest case variants and wrong passwords).        *)
(*                                                                         *)
(* Invariants                                                              *)
(*   HonestAgree      an honest client is accepted, accepts the server's   *)
(*                    proof, and both hold the same 40-byte key            *)
(*   AcceptImpliesKey whenever the server accepts, its key equals the      *)
(*                    client's (acceptance is never granted on a           *)
(*                    different secret)                                    *)
(*   RejectPayload    a refusal carries <<presented, expected>> and leaves *)
(*                    no session object                                    *)
(*   HonestSNonZero   the honest shared secret is never 0                  *)
(*   Total, TypeOK    of Auth                                              *)
(***************************************************************************)
EXTENDS Auth, FiniteSets

CONSTANTS NNat,      \* the prime modulus as a number
          Creds,     \* set of <<user cps, pass cps>>
          Salts      \* set of small numbers, used as salt bytes

MCSrvN == Pad(Nat2LE(NNat), 32)
Key(n) == Pad(Nat2LE(n), 32)
SaltOf(n) == [i \in 1..32 |-> (n * i + 7) % 256]
Chal == [i \in 1..16 |-> i]

SwapCase(cps) == [i \in 1..Len(cps) |->
                    IF cps[i] >= 97 /\ cps[i] <= 122 THEN cps[i] - 32
                    ELSE IF cps[i] >= 65 /\ cps[i] <= 90 THEN cps[i] + 32 ELSE cps[i]]
WrongPass(cps) == IF Len(cps) < 16 THEN Append(cps, 33) ELSE [cps EXCEPT ![1] = IF @ = 33 THEN 34 ELSE 33]

\* credentials: "a"/"B1", a 16-byte user with punctuation, digits
MCCreds1 == { << <<97>>, <<66, 49>> >> }
MCCreds3 == { << <<97>>, <<66, 49>> >>,
              << <<117, 115, 58, 101, 114, 34, 110, 59, 97, 109, 92, 101, 126, 32, 122, 90>>, <<112, 58, 97>> >>,
              << <<49, 50, 51>>, <<52, 53, 54, 55, 56, 57, 48, 49, 50, 51, 52, 53, 54, 55, 56, 57>> >> }

VARIABLES phase, cred, honest
mvars == <<obj, out, phase, cred, honest>>

Init == AuthInit /\ phase = 0 /\ cred = <<>> /\ honest = FALSE

DoRegister ==
    /\ phase = 0
    /\ \E c \in Creds, s \in Salts :
          /\ Register("v", c[1], c[2], SaltOf(s))
          /\ cred' = c
    /\ phase' = 1 /\ UNCHANGED honest

DoIntoProof ==
    /\ phase = 1
    /\ \E b \in 0..(NNat - 1) : IntoProof("v", "p", Key(b))
    /\ phase' = IF out'.kind = "ok" THEN 2 ELSE 9
    /\ UNCHANGED <<cred, honest>>

DoClientNew ==
    /\ phase = 2
    /\ \E a \in 0..(NNat - 1), variant \in {"same", "swapped", "wrong"} :
          LET tu == IF variant = "swapped" THEN SwapCase(cred[1]) ELSE cred[1]
              tp == IF variant = "swapped" THEN SwapCase(cred[2])
                    ELSE IF variant = "wrong" THEN WrongPass(cred[2]) ELSE cred[2]
          IN /\ ClientNew("c", tu, tp, SrvG, SrvN, obj["p"].B, obj["p"].salt, Key(a))
             /\ honest' = (variant # "wrong")
    /\ phase' = IF out'.kind = "ok" THEN 3 ELSE 9
    /\ UNCHANGED cred

DoIntoServer ==
    /\ phase = 3
    /\ IntoServer("p", "s", obj["c"].A, obj["c"].m1, Chal)
    /\ phase' = IF out'.kind = "ok" THEN 4 ELSE 8
    /\ UNCHANGED <<cred, honest>>

DoVerifyServerProof ==
    /\ phase = 4
    /\ VerifyServerProof("c", "k", out.M2)
    /\ phase' = 5
    /\ UNCHANGED <<cred, honest>>

Next == DoRegister \/ DoIntoProof \/ DoClientNew \/ DoIntoServer \/ DoVerifyServerProof

Spec == Init /\ [][Next]_mvars

---------------------------------------------------------------------------
HonestAgree ==
    /\ (phase \in {4, 8} /\ honest) => phase = 4
    /\ (phase = 5 /\ honest) => (out.kind = "ok" /\ Has("s", "server") /\ Has("k", "client")
                                   /\ obj["s"].K = obj["k"].K /\ Len(obj["k"].K) = 40)

AcceptImpliesKey ==
    (phase = 4) => (Has("s", "server") /\ obj["s"].K = obj["c"].K)

RejectPayload ==
    (phase = 8) => (out.kind = "err" /\ out.client = obj["c"].m1 /\ ~Has("s", "server") /\ obj["p"].st = "gone")

HonestSNonZero ==
    (phase = 3 /\ honest) =>
        LET p == obj["p"] c == obj["c"]
        IN ~AllZero(ServerS(SrvN, c.A, p.v, Uh(c.A, p.B), p.b))

\* classes the enumeration reaches (printed once by the driver through coverage of these)
Inv == TypeOK /\ Total /\ HonestAgree /\ AcceptImpliesKey /\ RejectPayload /\ HonestSNonZero
=============================================================================
