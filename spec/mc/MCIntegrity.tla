----------------------------- MODULE MCIntegrity -----------------------------
(***************************************************************************)
(* Integrity hashes (C17): every way of distributing a byte string of      *)
(* length 0..MaxBytes over the five file arguments (all weak compositions) *)
(* gives the same concatenation, hence the same hash; emitted for replay   *)
(* through the Windows, Mac and generic functions.                         *)
(***************************************************************************)
EXTENDS Integrity, FiniteSets, Json, TLC

CONSTANTS MaxBytes
Data(n) == [k \in 1..n |-> (k * 53 + 17) % 256]
Cuts(n) == { c \in [1..4 -> 0..n] : c[1] <= c[2] /\ c[2] <= c[3] /\ c[3] <= c[4] }
Files(n, c) == << SubSeq(Data(n), 1, c[1]), SubSeq(Data(n), c[1] + 1, c[2]), SubSeq(Data(n), c[2] + 1, c[3]),
                  SubSeq(Data(n), c[3] + 1, c[4]), SubSeq(Data(n), c[4] + 1, n) >>
VARIABLE f
Init == \E n \in 0..MaxBytes : \E c \in Cuts(n) : f = [n |-> n, files |-> Files(n, c)]
Next == UNCHANGED f
Spec == Init /\ [][Next]_f
Salt0 == [k \in 1..16 |-> k]
Key0 == [k \in 1..32 |-> 2 * k]
SameBytes == Concat(f.files) = Data(f.n)
SameHash == IntegrityCheck(f.files, Salt0, Key0) = IntegrityCheck(<<Data(f.n)>>, Salt0, Key0)
EmitInv == PrintT(<<"REPLAY", ToJson([files |-> f.files])>>)
=============================================================================
