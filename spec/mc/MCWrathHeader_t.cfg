SPECIFICATION Spec
CONSTANTS
  Sizes = {0, 1, 127, 128, 255, 256, 32766, 32767, 32768, 32769, 65535, 65536, 4194303, 4194304, 8388606, 8388607}
  Ops = {0, 255, 256, 32768, 65535}
  Paths = {0, 1, 2}
  MaxLen = 2
  ShardSize = 65536
  NShards = 128
  SweepOps = {494, 65535}
INVARIANTS Recovered InStep CodecShard CodecBoundary EmitInv
CHECK_DEADLOCK FALSE
