SPECIFICATION Spec
CONSTANTS
  Hash <- SHA1
  NFiles = 7
INVARIANT AllReproduced
CHECK_DEADLOCK FALSE
