-------------------------------- MODULE MCPin --------------------------------
(***************************************************************************)
(* The keypad layout (C16): for every residue r modulo 10! of a shard,     *)
(* LayoutNat(r) is a permutation of 0..9, the factorial-base rank of the   *)
(* layout is r again (so r -> layout is injective, hence a bijection onto  *)
(* the 10! permutations), and seeds congruent modulo 10! give the same     *)
(* layout.  All 3 628 800 residues in the thorough configuration.          *)
(* Also the digit gate: a hash exists exactly for 4..10 decimal digits.    *)
(***************************************************************************)
EXTENDS Pin, FiniteSets

CONSTANTS ShardSize, NShards

RECURSIVE RankFrom(_, _, _)
RankFrom(layout, k, grid) ==      \* mixed-radix rank: digit k is the index of layout[k] among the remaining digits
    IF k > 10 THEN 0
    ELSE LET idx == (CHOOSE j \in 1..Len(grid) : grid[j] = layout[k]) - 1
         IN idx + (11 - k) * RankFrom(layout, k + 1, DelAt(grid, idx + 1))
Rank(layout) == RankFrom(layout, 1, <<0, 1, 2, 3, 4, 5, 6, 7, 8, 9>>)

VARIABLE shard
Init == shard \in 0..(NShards - 1)
Next == UNCHANGED shard
Spec == Init /\ [][Next]_shard

Residues == {r \in (shard * ShardSize)..((shard + 1) * ShardSize - 1) : r < Fact10}
LayoutOK == \A r \in Residues :
              LET lay == LayoutNat(r) IN
              /\ IsPerm10(lay)
              /\ Rank(lay) = r
              /\ \A j \in {1, 2, 590} : (r + j * Fact10 < 2147483647) => LayoutNat(r + j * Fact10) = lay

\* PIN digit gate on the boundaries of every digit count (u32 as 4 little-endian bytes)
U32(b1, b2, b3, b4) == <<b1, b2, b3, b4>>
ASSUME /\ ~HasHash(<<0, 0, 0, 0>>) /\ ~HasHash(<<231, 3, 0, 0>>)          \* 0, 999
       /\ HasHash(<<232, 3, 0, 0>>) /\ Len(Digits(<<232, 3, 0, 0>>)) = 4      \* 1000
       /\ HasHash(<<255, 255, 255, 255>>) /\ Digits(<<255, 255, 255, 255>>) = <<4, 2, 9, 4, 9, 6, 7, 2, 9, 5>>
       /\ Digits(<<21, 182, 0, 61>>) = <<1, 0, 2, 3, 4, 5, 6, 7, 8, 9>>
       /\ \A n \in 0..12000 : HasHash(Pad(Nat2LE(n), 4)) = (n >= 1000)
       /\ Layout(<<0, 0, 0, 0>>) = <<0, 1, 2, 3, 4, 5, 6, 7, 8, 9>>
       /\ Layout(<<255, 255, 255, 255>>) = LayoutNat(2096895)      \* 2^32 - 1 = 1183 * 10! + 2096895
=============================================================================
