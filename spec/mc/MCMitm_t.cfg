SPECIFICATION Spec
CONSTANTS
  Hash <- SHA1
  SrvG = 5
  NNat = 23
  SrvN <- MCSrvN
  MaxTamper = 2
INVARIANT Inv
CHECK_DEADLOCK FALSE
