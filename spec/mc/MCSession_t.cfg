SPECIFICATION Spec
CONSTANTS
  Hash <- SHA1
  SrvG = 5
  NNat = 23
  SrvN <- MCSrvN
  Keys = {0, 1, 2, 3, 4, 5, 6, 7, 8, 9, 10, 11, 12, 13, 14, 15, 16, 17, 18, 19, 20, 21, 22}
  MaxReconnects = 2
  MaxHeaders = 3
INVARIANT Inv
CHECK_DEADLOCK FALSE
