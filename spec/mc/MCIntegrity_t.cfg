SPECIFICATION Spec
CONSTANTS
  MaxBytes = 7
INVARIANTS SameBytes SameHash EmitInv
CHECK_DEADLOCK FALSE
