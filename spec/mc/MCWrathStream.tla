---------------------------- MODULE MCWrathStream ----------------------------
(***************************************************************************)
(* Model of the two Wrath header streams (C09): the four halves of one     *)
(* connection in lock-step on the real RC4-drop1024 keystreams.  Each step *)
(* sends a chunk (length from ChunkSizes, including 0) in one of the two   *)
(* directions and decrypts it on the other side.                           *)
(*   InStep    each decrypter's RC4 state equals its peer encrypter's      *)
(*   RoundTrip the receiver recovers the plaintext                         *)
(*   PermOK    every S-box stays a permutation, i and j stay bytes         *)
(*   Disjoint  the two directions never have the same RC4 state (their     *)
(*             keystreams are keyed by different constants)                *)
(*   Counters  i = bytes sent mod 256 in every half (the 8-bit counter     *)
(*             wraps; depth is chosen beyond 256, and beyond 65 536 in the *)
(*             thorough configuration)                                     *)
(***************************************************************************)
EXTENDS WrathCipher, FiniteSets

CONSTANTS ChunkSizes, MaxBytes

K0 == [i \in 1..40 |-> (i * 97 + 5) % 256]

VARIABLES ce, sd, se, cd, sentC, sentS, rt
vars == <<ce, sd, se, cd, sentC, sentS, rt>>

Init == /\ ce = WrathInit("client", "enc", K0) /\ sd = WrathInit("server", "dec", K0)
        /\ se = WrathInit("server", "enc", K0) /\ cd = WrathInit("client", "dec", K0)
        /\ sentC = 0 /\ sentS = 0 /\ rt = TRUE

Data(from, n) == [k \in 1..n |-> ((from + k) * 131 + 17) % 256]

SendC(n) == /\ sentC + n <= MaxBytes
          /\ LET d == Data(sentC, n)
                 e == WrathApply(ce, d)
                 r == WrathApply(sd, e[1])
             IN /\ ce' = e[2] /\ sd' = r[2] /\ rt' = (r[1] = d) /\ sentC' = sentC + n
          /\ UNCHANGED <<se, cd, sentS>>
SendS(n) == /\ sentS + n <= MaxBytes
          /\ LET d == Data(sentS, n)
                 e == WrathApply(se, d)
                 r == WrathApply(cd, e[1])
             IN /\ se' = e[2] /\ cd' = r[2] /\ rt' = (r[1] = d) /\ sentS' = sentS + n
          /\ UNCHANGED <<ce, sd, sentC>>
Next == \E n \in ChunkSizes : SendC(n) \/ SendS(n)
Spec == Init /\ [][Next]_vars

InStep == ce = sd /\ se = cd
RoundTrip == rt
PermOK == Rc4StateOK(ce) /\ Rc4StateOK(se)
Disjoint == ce # se
Counters == ce[2] = (1024 + sentC) % 256 /\ se[2] = (1024 + sentS) % 256
\* only the byte counts matter: the state is a function of (sentC, sentS)
=============================================================================
