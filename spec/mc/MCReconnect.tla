----------------------------- MODULE MCReconnect -----------------------------
(***************************************************************************)
(* Exhaustive model of the reconnect machine (C05) — the symbolic instance *)
(* of Auth: the hash is an injective constructor, nonces come from a       *)
(* counter.  TLC explores ALL histories of attempts up to MaxLen drawn     *)
(* from the attempt kinds below against one live server session, and       *)
(* checks in every state                                                   *)
(*    ReconnectIff          accepted iff the proof is the one for the      *)
(*                          challenge currently on offer                   *)
(*    ChallengeSingleUse    no <<challenge, data, proof>> accepted twice   *)
(*    LegitAlwaysReconnects the legitimate client always gets in           *)
(*    DrawsFresh            every attempt replaces the challenge by a new  *)
(*                          value                                          *)
(* Every maximal history is also emitted (REPLAY lines) and replayed on a  *)
(* real SrpServer / SrpClient pair by the harness.                         *)
(***************************************************************************)
EXTENDS Auth, Json, FiniteSets

CONSTANTS MaxLen, Emit

SymHash(m) == <<"H", m>>

Kinds == {"good", "replayAcc", "replayRej", "replayAccFirst", "replayRejFirst", "stale", "wrongK", "wrongU",
          "flipProof", "flipData", "garbage", "truncProof", "reflect", "regroupProof"}

VARIABLES ctr,       \* nonce counter (all draws)
          hist,      \* attempt kinds so far
          lastAcc,   \* last accepted <<data, proof>> or <<>>
          lastRej,   \* last rejected <<data, proof>> or <<>>
          firstAcc, firstRej,   \* first accepted / rejected pair of the history, or <<>>
          prevChal,  \* challenge that was on offer before the last attempt, or <<>>
          accepted,  \* sequence of accepted triples <<chal, data, proof>>
          chals      \* set of all challenges ever on offer

mvars == <<obj, out, ctr, hist, lastAcc, lastRej, firstAcc, firstRej, prevChal, accepted, chals>>

S == "s"
U0 == <<1>>
K0 == <<10>>

Init == /\ obj = [x \in {S} |-> [st |-> "server", U |-> U0, K |-> K0, chal |-> <<100>>]]
        /\ out = [kind |-> "none"]
        /\ ctr = 0 /\ hist = <<>> /\ lastAcc = <<>> /\ lastRej = <<>> /\ firstAcc = <<>> /\ firstRej = <<>> /\ prevChal = <<>>
        /\ accepted = <<>> /\ chals = {<<100>>}

Nonce(n) == <<200 + n>>
NewChal(n) == <<101 + n>>

\* the <<data, proof>> an attempt of kind k presents, or <<>> when k is not applicable
Attempt(k) ==
    LET s  == obj[S]
        cd == Nonce(ctr)
        good == ReconnectProof(s.U, cd, s.chal, s.K)
    IN CASE k = "good"      -> <<cd, good>>
         [] k = "replayAcc" -> lastAcc
         [] k = "replayRej" -> lastRej
         [] k = "replayAccFirst" -> IF firstAcc = lastAcc THEN <<>> ELSE firstAcc     \* an OLDER accepted pair
         [] k = "replayRejFirst" -> IF firstRej = lastRej THEN <<>> ELSE firstRej
         [] k = "stale"     -> IF prevChal = <<>> THEN <<>>
                               ELSE <<cd, ReconnectProof(s.U, cd, prevChal, s.K)>>
         [] k = "wrongK"    -> <<cd, ReconnectProof(s.U, cd, s.chal, <<11>>)>>
         [] k = "wrongU"    -> <<cd, ReconnectProof(<<2>>, cd, s.chal, s.K)>>
         [] k = "flipProof" -> <<cd, <<"flip", good>> >>
         [] k = "flipData"  -> << <<200 + ctr, 0>>, good>>
         [] k = "garbage"   -> <<cd, <<"junk", ctr>> >>
         [] k = "reflect"   -> <<s.chal, ReconnectProof(s.U, s.chal, s.chal, s.K)>>   \* client data = the server's challenge
         [] k = "regroupProof" -> <<cd, <<"regrouped", good>> >>   \* digits of neighbouring bytes / words regrouped
         [] k = "truncProof" -> <<cd, <<"trunc", good>> >>      \* a prefix of the good proof, the rest zeroed

Try(k) ==
    /\ Len(hist) < MaxLen
    /\ Attempt(k) # <<>>
    /\ LET at == Attempt(k)
           before == obj[S].chal
       IN /\ VerifyReconnect(S, at[1], at[2], NewChal(ctr))
          /\ ctr' = ctr + 1
          /\ hist' = Append(hist, k)
          /\ prevChal' = before
          /\ chals' = chals \cup {NewChal(ctr)}
          /\ IF out'.ok
             THEN /\ lastAcc' = at /\ lastRej' = lastRej
                  /\ firstAcc' = (IF firstAcc = <<>> THEN at ELSE firstAcc) /\ firstRej' = firstRej
                  /\ accepted' = Append(accepted, <<before, at[1], at[2]>>)
             ELSE /\ lastRej' = at /\ lastAcc' = lastAcc /\ accepted' = accepted
                  /\ firstRej' = (IF firstRej = <<>> THEN at ELSE firstRej) /\ firstAcc' = firstAcc

Next == \E k \in Kinds : Try(k)

Spec == Init /\ [][Next]_mvars

---------------------------------------------------------------------------
LastKind == hist[Len(hist)]

ReconnectIff ==
    (Len(hist) > 0) => (out.ok = (LastKind \in {"good", "reflect"}))

LegitAlwaysReconnects ==
    (Len(hist) > 0 /\ LastKind \in {"good", "reflect"}) => out.ok

ChallengeSingleUse ==
    \A i, j \in 1..Len(accepted) : i # j => accepted[i] # accepted[j]

DrawsFresh ==
    /\ (Len(hist) > 0) => (out.chalAfter # out.chalBefore /\ obj[S].chal = out.chalAfter)
    /\ Cardinality(chals) = Len(hist) + 1

\* scenario emission: one line per maximal history
EmitInv == (Emit /\ Len(hist) = MaxLen) => PrintT(<<"REPLAY", ToJson([h |-> hist])>>)

\* the bounded model really exercises every attempt kind, accepted and rejected
Constraint == TRUE
=============================================================================
