SPECIFICATION Spec
CONSTANTS
  MaxN = 3
INVARIANTS Inv EmitInv
CHECK_DEADLOCK FALSE
