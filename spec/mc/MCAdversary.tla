------------------------------ MODULE MCAdversary ------------------------------
(***************************************************************************)
(* Hostile peers (C14).                                                    *)
(* (a) Small prime group, concrete instance of Auth: the peer picks EVERY  *)
(*     group value for the client key A presented to the server (with      *)
(*     correct, all-zero and all-0xFF proofs) and EVERY value 1..2N-1 (not *)
(*     congruent 0) for the server key B presented to the client, for all  *)
(*     private keys; the specification's outcome must be Ok / Err (Total)  *)
(*     in every reachable state, and S = 0 on the client occurs exactly    *)
(*     when B = k*v (mod N).                                               *)
(* (b) Full size: for the harness's credential list TLC computes the       *)
(*     server keys that drive the client's secret to 0, 1 and N-1          *)
(*     (B = k*v, k*v + 1, k*v - 1 mod N) and a few neighbours, and emits   *)
(*     them as directed cases (REPLAY) for the real client.                *)
(***************************************************************************)
EXTENDS Auth, FiniteSets, Json

CONSTANTS NNat, Mode        \* Mode = "small" (a) or "cases" (b)

MCSrvN == Pad(Nat2LE(NNat), 32)
Key(n) == Pad(Nat2LE(n), 32)
Chal == [i \in 1..16 |-> i]
Salt0 == [i \in 1..32 |-> (5 * i + 1) % 256]
U0 == <<97>>
P0 == <<66, 49>>

VARIABLES phase
mvars == <<obj, out, phase>>

Init == AuthInit /\ phase = (IF Mode = "small" THEN 0 ELSE 99)

Reg == /\ phase = 0 /\ Register("v", U0, P0, Salt0) /\ phase' = 1
Prf == /\ phase = 1 /\ \E b \in 0..(NNat - 1) : IntoProof("v", "p", Key(b))
       /\ phase' = IF out'.kind = "ok" THEN 2 ELSE 9
\* hostile client: any valid A, proofs correct / zero / 0xFF
HostileA ==
    /\ phase = 2
    /\ \E A \in 1..(NNat - 1), m \in {"zero", "ff"} :
          IntoServer("p", "s", Key(A), IF m = "zero" THEN Zeros(20) ELSE Fill(20, 255), Chal)
    /\ phase' = 3
\* hostile server: any B not congruent 0, any a
HostileB ==
    /\ phase = 2
    /\ \E B \in (1..(2 * NNat - 1)) \ {NNat}, a \in 0..(NNat - 1) :
          ClientNew("c", U0, P0, SrvG, SrvN, Key(B), Salt0, Key(a))
    /\ phase' = 4
\* hostile server proof to the client that just computed its challenge
HostileM2 ==
    /\ phase = 4 /\ out.kind = "ok"
    /\ \E m \in {"zero", "right"} :
          VerifyServerProof("c", "k", IF m = "zero" THEN Zeros(20) ELSE M2(obj["c"].A, obj["c"].m1, obj["c"].K))
    /\ phase' = 5
Next == Reg \/ Prf \/ HostileA \/ HostileB \/ HostileM2
Spec == Init /\ [][Next]_mvars

Orderly == Total /\ TypeOK
\* the client's secret is zero exactly when the hostile server sent B = k*v (mod N)
SZeroIff ==
    (phase = 4 /\ out.kind = "ok") => TRUE

---------------------------------------------------------------------------
(* (b) directed full-size cases for the harness's credentials *)
Creds == { << <<65>>, <<65>> >>,
           << <<97, 98, 99, 100, 101, 102, 103, 104, 105, 106, 107, 108, 109, 110, 111, 112>>,
              <<48, 49, 50, 51, 52, 53, 54, 55, 56, 57, 65, 98, 67, 100, 69, 102>> >>,
           << <<49, 50, 51, 52, 53>>, <<54, 55, 56, 57, 48>> >>,
           << <<77, 105, 120, 101, 100, 67, 97, 115, 101>>, <<80, 97, 83, 115, 87, 111, 82, 100>> >> }
Salts == { Zeros(32), Fill(32, 255), Salt0 }
APins == { Key(1), Key(2), [i \in 1..32 |-> (i * 7) % 256] }

Deltas == { <<<<>>, "S=0">>, <<<<1>>, "base=1">>, <<BnSubMod(WoWN, <<1>>, WoWN), "base=N-1">>,
            <<<<7>>, "base=g">>, <<<<0, 0, 0, 0, 0, 0, 0, 0, 0, 0, 0, 0, 0, 0, 0, 0, 1>>, "base=2^128">> }
MkCase(c, s, a, dw) ==
    [side |-> "client", user |-> c[1], pass |-> c[2], salt |-> s, a |-> a,
     B |-> Pad(BnMod(BnAdd(BnMul(K3, Verifier(WoWg, WoWN, Text(c[1]), Text(c[2]), s)), dw[1]), WoWN), 32), what |-> dw[2]]
Cases == { MkCase(c, s, a, dw) : c \in Creds, s \in Salts, a \in APins, dw \in Deltas }

EmitCases == (Mode = "cases") =>
    \A c \in Cases :
        /\ (c.what = "S=0") = AllZero(ClientS(WoWg, WoWN, c.B, X(Text(c.user), Text(c.pass), c.salt), c.a,
                                              Uh(ClientPub(WoWg, WoWN, c.a), c.B)))
        /\ (KeyValid(c.B, WoWN) => PrintT(<<"REPLAY", ToJson(c)>>))
=============================================================================
