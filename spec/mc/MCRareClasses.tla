---------------------------- MODULE MCRareClasses ----------------------------
(***************************************************************************)
(* Directed search, by TLC from the specification itself, for private keys *)
(* that reach the rare classes of the shared secret at FULL SIZE: S with   *)
(* Want or more low-order zero bytes (once per 256^Want logins).           *)
(* Fixed credentials, salt and server key b; client keys a = A0 + i.       *)
(* Witnesses are emitted as REPLAY lines; the 3-byte witnesses found once  *)
(* are committed under corpus/ as INPUTS - their class is re-established   *)
(* by TLC from the recorded trace on every run.                            *)
(***************************************************************************)
EXTENDS Srp6, Json, TLC

CONSTANTS NShards, PerShard, Want, Offset

User == <<82, 65, 82, 69>>          \* "RARE"
Pass == <<67, 76, 65, 83, 83>>      \* "CLASS"
Salt == [k \in 1..32 |-> (k * 73 + 29) % 256]
Bk   == [k \in 1..32 |-> (k * 151 + 7) % 256]
A0   == [k \in 1..32 |-> (k * 211 + 99) % 256]

V  == Verifier(WoWg, WoWN, User, Pass, Salt)
Bp == ServerPub(WoWg, WoWN, V, Bk)

VARIABLE shard
Init == shard \in 0..(NShards - 1)
Next == UNCHANGED shard
Spec == Init /\ [][Next]_shard

Key(i) == Pad(BnAdd(A0, Nat2LE(Offset + i)), 32)
Zeros0(i) == LET A == ClientPub(WoWg, WoWN, Key(i))
             IN LeadingZeros(ServerS(WoWN, A, V, Uh(A, Bp), Bk))

Search == \A i \in (shard * PerShard)..((shard + 1) * PerShard - 1) :
             LET z == Zeros0(i) IN
             IF z >= Want
             THEN PrintT(<<"REPLAY", ToJson([user |-> "RARE", pass |-> "CLASS", salt |-> Salt, b |-> Bk, a |-> Key(i), class |-> z])>>)
             ELSE TRUE
=============================================================================
