SPECIFICATION Spec
CONSTANTS
  Hash <- SHA1
  ReadKinds = {"UnexpectedEof", "ConnectionReset", "WouldBlock", "Other"}
  WriteKinds = {"BrokenPipe", "WriteZero", "WouldBlock", "Other"}
  IntrChoices = {0, 1, 2, 3, 4, 5, 6}
INVARIANTS ReadFacts WriteFacts EmitInv
CHECK_DEADLOCK FALSE
