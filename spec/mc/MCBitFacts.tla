----------------------------- MODULE MCBitFacts -----------------------------
(***************************************************************************)
(* Ties spec/tlaps/CodecProof (arithmetic form, proved by TLAPS for every  *)
(* size and opcode) to the codec the specification uses (WrathCipher, with *)
(* the Bitwise operators): the three bit facts for EVERY byte, and equality *)
(* of the two encoders / decoders / markers on boundary sizes x opcodes.    *)
(***************************************************************************)
EXTENDS WrathCipher, TLC

CP == INSTANCE CodecProof

ASSUME BitFacts ==
    \A b \in 0..255 : /\ Marker(b) = CP!Marker(b)
                      /\ (b & 127) = b % 128
                      /\ (b < 128 => (b | 128) = b + 128)

SampleSizes == {0, 1, 255, 256, 32767, 32768, 65535, 65536, 65537, 8388607, 4660, 4386816}
SampleOps == {0, 1, 255, 256, 494, 65535, 43981}

ASSUME SameCodec ==
    \A s \in SampleSizes, o \in SampleOps :
        LET w == EncodeServer(s, o)
            c == IF CP!IsLarge(s)
                 THEN <<CP!Enc1(s), CP!Enc2(s), CP!Enc3(s, o), CP!Enc4(s, o), CP!Enc5(o)>>
                 ELSE <<CP!Enc1(s), CP!Enc2(s), CP!Enc3(s, o), CP!Enc4(s, o)>>
        IN /\ w = c
           /\ IsLarge(s) = CP!IsLarge(s)
           /\ IF IsLarge(s)
              THEN DecodeLarge(w) = [size |-> CP!LargeSize(w[1], w[2], w[3]), opcode |-> CP!LargeOpcode(w[4], w[5])]
              ELSE DecodeSmall(w) = [size |-> CP!SmallSize(w[1], w[2]), opcode |-> CP!SmallOpcode(w[3], w[4])]

VARIABLE x
Init == x = 0
Next == UNCHANGED x
Spec == Init /\ [][Next]_x
=============================================================================
