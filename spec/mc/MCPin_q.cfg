SPECIFICATION Spec
CONSTANTS
  ShardSize = 2520
  NShards = 16
INVARIANT LayoutOK
CHECK_DEADLOCK FALSE
