------------------------------ MODULE MCSession ------------------------------
(***************************************************************************)
(* The whole system composed: account registration, the SRP6 login of Auth *)
(* (small prime group, every private key pair), the world login of Headers *)
(* with the session key each side derived, and header traffic in both      *)
(* directions for each of the three expansions.  This is the end-to-end    *)
(* statement that the per-module properties add up to:                     *)
(*   LoginThenWorld   an honest client that completed the login is also    *)
(*                    accepted by the world server (its proof is computed  *)
(*                    from the key IT derived, checked against the key the *)
(*                    SERVER derived)                                      *)
(*   InStep           after any number of headers each decrypter is in     *)
(*                    the state of its peer's encrypter                    *)
(*   Delivered        every header sent is recovered with the size and     *)
(*                    opcode that were sent                                *)
(*   ReconnectWorks   at any point of the traffic the client can reconnect   *)
(*                    with the key it holds (any number of times: each      *)
(*                    attempt is made against the challenge then on offer), *)
(*                    and a proof for an earlier challenge is refused       *)
(* A wrong-password client never gets that far (it is refused at login).   *)
(***************************************************************************)
EXTENDS Auth, Headers, FiniteSets

CONSTANTS NNat, Keys, MaxHeaders, MaxReconnects

MCSrvN == Pad(Nat2LE(NNat), 32)
Key(n) == Pad(Nat2LE(n), 32)
Salt0 == [i \in 1..32 |-> (3 * i + 5) % 256]
Chal == [i \in 1..16 |-> 16 - i]
U0 == <<115, 101, 115, 115>>         \* "sess"
P0 == <<80, 119, 49>>                \* "Pw1"
Seeds == { <<0, 0, 0, 0>>, <<239, 190, 173, 222>> }
Hdrs == { [size |-> 12, opcode |-> 494], [size |-> 40000, opcode |-> 65535] }   \* the second one is long on wrath

VARIABLES phase, exp, sent, got, nh, rc
mvars == <<obj, out, half, hout, phase, exp, sent, got, nh, rc>>

CData(n) == [i \in 1..16 |-> (n + i) % 256]
NewChal(n) == [i \in 1..16 |-> (17 * n + 3 * i + 1) % 256]
RcInit == [n |-> 0, pending |-> <<>>, stale |-> <<>>, last |-> "none"]

Init == AuthInit /\ HInit /\ phase = 0 /\ exp = "none" /\ sent = <<>> /\ got = <<>> /\ nh = 0 /\ rc = RcInit

Reg == /\ phase = 0 /\ Register("v", U0, P0, Salt0) /\ phase' = 1
       /\ UNCHANGED <<half, hout, exp, sent, got, nh, rc>>
Prf == /\ phase = 1 /\ \E b \in Keys : IntoProof("v", "p", Key(b))
       /\ phase' = IF out'.kind = "ok" THEN 2 ELSE 99
       /\ UNCHANGED <<half, hout, exp, sent, got, nh, rc>>
Cli == /\ phase = 2 /\ \E a \in Keys : ClientNew("c", U0, P0, SrvG, SrvN, obj["p"].B, obj["p"].salt, Key(a))
       /\ phase' = IF out'.kind = "ok" THEN 3 ELSE 99
       /\ UNCHANGED <<half, hout, exp, sent, got, nh, rc>>
Srv == /\ phase = 3 /\ IntoServer("p", "s", obj["c"].A, obj["c"].m1, Chal)
       /\ phase' = IF out'.kind = "ok" THEN 4 ELSE 98
       /\ UNCHANGED <<half, hout, exp, sent, got, nh, rc>>
Vsp == /\ phase = 4 /\ VerifyServerProof("c", "k", out.M2)
       /\ phase' = IF out'.kind = "ok" THEN 5 ELSE 98
       /\ UNCHANGED <<half, hout, exp, sent, got, nh, rc>>

\* world login: the client proves knowledge of ITS key, the server checks against ITS key
WorldC == /\ phase = 5
          /\ \E e \in {"vanilla", "tbc", "wrath"}, cs \in Seeds, ss \in Seeds :
                /\ WorldClient("ce", "cd", e, obj["k"].U, obj["k"].K, cs, ss)
                /\ exp' = e
                /\ sent' = <<cs, ss>>
          /\ phase' = 6 /\ UNCHANGED <<obj, out, got, nh, rc>>
WorldS == /\ phase = 6
          /\ WorldServer("se", "sd", exp, obj["s"].U, obj["s"].K, hout.proof, sent[2], sent[1])
          /\ phase' = IF hout'.kind = "ok" THEN 7 ELSE 97
          /\ sent' = <<>> /\ UNCHANGED <<obj, out, exp, got, nh, rc>>

\* header traffic: server -> client and client -> server
S2Cstep ==
    /\ phase = 7 /\ nh < MaxHeaders
    /\ \E h \in Hdrs :
         LET hs == IF exp = "wrath" THEN h ELSE [h EXCEPT !.size = h.size % 32768]
             w  == WireOf(half["se"], "server", hs.size, hs.opcode)
             e  == Apply(half["se"], w)
             d  == IF exp = "wrath"
                   THEN LET a == Attempt(half["cd"].st, half["cd"].stash, SubSeq(e[1], 1, 4))
                        IN IF a.need5 THEN LET c == Complete(a.rc4, a.stash, e[1][5]) IN <<c.header, [half["cd"] EXCEPT !.st = c.rc4, !.stash = a.stash]>>
                           ELSE <<a.header, [half["cd"] EXCEPT !.st = a.rc4]>>
                   ELSE LET r == Apply(half["cd"], e[1]) IN <<ParseServer(r[1]), r[2]>>
         IN /\ half' = [half EXCEPT !["se"] = e[2], !["cd"] = d[2]]
            /\ sent' = hs /\ got' = d[1]
    /\ nh' = nh + 1 /\ UNCHANGED <<obj, out, hout, phase, exp, rc>>
C2Sstep ==
    /\ phase = 7 /\ nh < MaxHeaders
    /\ \E h \in Hdrs :
         LET hc == [size |-> h.size % 65536, opcode |-> U32LEsmall(h.opcode * 3)]
             w  == ClientWire(hc.size, hc.opcode)
             e  == Apply(half["ce"], w)
             r  == Apply(half["sd"], e[1])
         IN /\ half' = [half EXCEPT !["ce"] = e[2], !["sd"] = r[2]]
            /\ sent' = hc /\ got' = ParseClient(r[1])
    /\ nh' = nh + 1 /\ UNCHANGED <<obj, out, hout, phase, exp, rc>>

\* reconnect in the middle of the traffic: the client computes its values for the challenge on offer, the server
\* verifies (and replaces the challenge); the pair is then tried once more against the new challenge
RcValues ==
    /\ phase = 7 /\ rc.n < MaxReconnects /\ rc.pending = <<>>
    /\ ReconnectValues("k", obj["s"].chal, CData(rc.n))
    /\ rc' = [rc EXCEPT !.pending = <<out'.cchal, out'.proof>>]
    /\ UNCHANGED <<half, hout, phase, exp, sent, got, nh>>
RcVerify ==
    /\ phase = 7 /\ rc.pending # <<>>
    /\ VerifyReconnect("s", rc.pending[1], rc.pending[2], NewChal(rc.n))
    /\ rc' = [n |-> rc.n + 1, pending |-> <<>>, stale |-> rc.pending, last |-> IF out'.ok THEN "accepted" ELSE "REFUSED"]
    /\ UNCHANGED <<half, hout, phase, exp, sent, got, nh>>
RcReplay ==
    /\ phase = 7 /\ rc.pending = <<>> /\ rc.stale # <<>>
    /\ VerifyReconnect("s", rc.stale[1], rc.stale[2], NewChal(rc.n + 100))
    /\ rc' = [rc EXCEPT !.stale = <<>>, !.last = IF out'.ok THEN "REPLAY-ACCEPTED" ELSE "replay-refused"]
    /\ UNCHANGED <<half, hout, phase, exp, sent, got, nh>>

Next == Reg \/ Prf \/ Cli \/ Srv \/ Vsp \/ WorldC \/ WorldS \/ S2Cstep \/ C2Sstep \/ RcValues \/ RcVerify \/ RcReplay
Spec == Init /\ [][Next]_mvars

---------------------------------------------------------------------------
LoginThenWorld == phase # 97 /\ phase # 98          \* an honest exchange is never refused, at either stage
InStep == phase = 7 => (half["ce"].st = half["sd"].st /\ half["se"].st = half["cd"].st)
Delivered == (phase = 7 /\ nh > 0) => got = sent
SameKey == phase >= 5 /\ phase <= 7 => obj["s"].K = obj["k"].K
ReconnectWorks == rc.last \in {"none", "accepted", "replay-refused"}
Inv == TypeOK /\ Total /\ HTypeOK /\ LoginThenWorld /\ InStep /\ Delivered /\ SameKey /\ ReconnectWorks
=============================================================================
