-------------------------- MODULE MCClientComposite --------------------------
(***************************************************************************)
(* Scenario generator (C03 / C19, client side): announced moduli that are  *)
(* NOT prime - squares and cubes of primes, products, multiples of powers  *)
(* of two, up to 64 bits and beyond - with server keys B chosen so that    *)
(* the base of the client's exponentiation, B - 3 * g^x, is a zero         *)
(* divisor of the ring (a multiple of a factor f of N), a unit, N - 1, or  *)
(* 1.  The specification computes the expected handshake with the same     *)
(* Srp6 formulas (nothing in them needs N to be prime); the harness runs   *)
(* the real client on each case with the announced group and injected key. *)
(***************************************************************************)
EXTENDS Srp6, NormString, Json, FiniteSets

Key(n) == Pad(Nat2LE(n), 32)
RawUser == <<85, 49>>            \* "U1"
RawPass == <<112, 58, 87>>       \* "p:W"
User == Text(RawUser)
Pass == Text(RawPass)
Salt == [i \in 1..32 |-> (i * 13 + 5) % 256]

P1 == Key(1000003)
P2 == Key(65537)
\* <<modulus, a factor of it>>
Mods == { <<BnMul(P1, P1), P1>>,                                   \* 1000003^2, 40 bits
          <<BnMul(BnMul(P1, P1), P1), P1>>,                         \* 1000003^3, 60 bits
          <<BnMul(P1, P2), P2>>,                                    \* a product of two primes
          <<BnMul(BnMul(P2, P2), BnMul(P2, P2)), BnMul(P2, P2)>>,   \* 65537^4, 65 bits
          <<Key(9), Key(3)>>, <<Key(49), Key(7)>>, <<Key(3125), Key(25)>>,
          <<BnMul(Key(65536), P1), Key(65536)>>,                    \* 2^16 * p
          <<BnMul(BnMul(P1, P1), BnMul(P1, P1)), BnMul(P1, P1)>> }  \* 1000003^4, 80 bits

VARIABLES m, g, a, k
vars == <<m, g, a, k>>
Init == /\ m \in Mods /\ g \in {2, 7} /\ a \in {1, 2, 3, 65537} /\ k \in 0..5
Next == UNCHANGED vars
Spec == Init /\ [][Next]_vars

Case ==
    LET N  == Pad(m[1], 32)
        f  == m[2]
        v  == Verifier(g, N, User, Pass, Salt)
        kv == BnMulMod(K3, v, N)
        \* k = 0..2: B - 3v = (k+1) * f (a zero divisor);  3: B - 3v = 1;  4: B - 3v = N - 1;  5: B - 3v = 2
        d  == CASE k \in 0..2 -> BnMulMod(Key(k + 1), f, N)
                [] k = 3 -> Key(1)
                [] k = 4 -> BnSubMod(N, Key(1), N)
                [] OTHER -> Key(2)
        B  == Pad(BnAddMod(kv, d, N), 32)
        A  == ClientPub(g, N, Key(a))
        x  == X(User, Pass, Salt)
        S  == ClientS(g, N, B, x, Key(a), Uh(A, B))
        K  == SrpInterleave(S)
        m1 == M1(g, N, User, Salt, A, B, K)
    IN [g |-> g, N |-> N, a |-> Key(a), B |-> B, salt |-> Salt, user |-> RawUser, pass |-> RawPass,
        A |-> A, M2 |-> M2(A, m1, K), bzero |-> AllZero(B), azero |-> AllZero(A)]

\* B = 0 is not a public key the harness can construct (it is refused before the client sees it); A = 0 is the documented panic
Emit == LET c == Case
        IN c.bzero \/ c.azero \/
           PrintT(<<"REPLAY", ToJson([g |-> c.g, N |-> c.N, a |-> c.a, B |-> c.B, salt |-> c.salt,
                                       user |-> c.user, pass |-> c.pass, M2 |-> c.M2])>>)
=============================================================================
