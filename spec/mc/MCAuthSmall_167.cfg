SPECIFICATION Spec
CONSTANTS
  Hash <- SHA1
  SrvG = 7
  NNat = 167
  SrvN <- MCSrvN
  Creds <- MCCreds1
  Salts = {1}
INVARIANT Inv
CHECK_DEADLOCK FALSE
