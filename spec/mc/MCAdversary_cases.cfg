SPECIFICATION Spec
CONSTANTS
  Hash <- SHA1
  SrvG = 7
  NNat = 23
  SrvN <- WoWN
  Mode = "cases"
INVARIANTS EmitCases
CHECK_DEADLOCK FALSE
