SPECIFICATION Spec
CONSTANTS
  Hash <- SHA1
  Primes = {3, 5, 7, 23, 47}
  Gens = {2, 7, 255}
INVARIANT Emit
CHECK_DEADLOCK FALSE
