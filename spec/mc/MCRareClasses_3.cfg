SPECIFICATION Spec
CONSTANTS
  Hash <- SHA1
  NShards = 1024
  PerShard = 65536
  Want = 3
  Offset = 0
INVARIANT Search
CHECK_DEADLOCK FALSE
