SPECIFICATION Spec
CONSTANTS
  Seeds <- MCSeeds
  MaxCells = 255
  CountSample = {1, 2, 3, 10, 100, 254}
INVARIANTS CellsPartition CoordsOK
CHECK_DEADLOCK FALSE
