SPECIFICATION Spec
CONSTANTS
  Hash <- SHA1
  SrvG = 2
  NNat = 227
  SrvN <- MCSrvN
  Creds <- MCCreds1
  Salts = {1}
INVARIANT Inv
CHECK_DEADLOCK FALSE
