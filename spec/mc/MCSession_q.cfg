SPECIFICATION Spec
CONSTANTS
  Hash <- SHA1
  SrvG = 5
  NNat = 23
  SrvN <- MCSrvN
  Keys = {0, 1, 2, 7, 11, 22}
  MaxReconnects = 1
  MaxHeaders = 2
INVARIANT Inv
CHECK_DEADLOCK FALSE
