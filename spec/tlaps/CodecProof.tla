------------------------------ MODULE CodecProof ------------------------------
(***************************************************************************)
(* Machine-checked proof (TLAPS) of the Wrath server-header codec facts of *)
(* C10 for EVERY size below 2^23 and EVERY opcode below 2^16 (TLC checks   *)
(* the same facts of WrathCipher!CodecOK by enumeration: all 2^23 sizes,   *)
(* but a handful of opcodes).  Same formulas as WrathCipher!EncodeServer,  *)
(* DecodeSmall, DecodeLarge and Marker, with the three bit operations on   *)
(* bytes written arithmetically:                                           *)
(*      h | 128 = h + 128  for h < 128,   b & 127 = b % 128,               *)
(*      (b & 128) # 0  iff  b >= 128                                       *)
(* (spec/mc/MCBitFacts checks with TLC that these agree with the Bitwise   *)
(* operators the specification uses, for every byte).                      *)
(***************************************************************************)
EXTENDS Integers

IsLarge(size) == size > 32767

\* the header as a tuple of its bytes: 5 of them when large, else 4 (b5 unused)
Enc1(size) == IF IsLarge(size) THEN ((size \div 65536) % 256) + 128 ELSE (size \div 256) % 256
Enc2(size) == IF IsLarge(size) THEN (size \div 256) % 256 ELSE size % 256
Enc3(size, opcode) == IF IsLarge(size) THEN size % 256 ELSE opcode % 256
Enc4(size, opcode) == IF IsLarge(size) THEN opcode % 256 ELSE (opcode \div 256) % 256
Enc5(opcode) == (opcode \div 256) % 256

Marker(b) == b >= 128
SmallSize(b1, b2) == (b1 * 256) + b2
SmallOpcode(b3, b4) == (b4 * 256) + b3
LargeSize(b1, b2, b3) == ((b1 % 128) * 65536) + (b2 * 256) + b3
LargeOpcode(b4, b5) == (b5 * 256) + b4

\* (written as a comprehension: tlapm 1.6 does not terminate on the interval literal 0..8388607)
Sizes == {n \in Nat : n < 8388608}
Opcodes == 0..65535
Byte == 0..255

THEOREM CodecBytes ==
    \A size \in Sizes, opcode \in Opcodes :
        /\ Enc1(size) \in Byte /\ Enc2(size) \in Byte /\ Enc3(size, opcode) \in Byte
        /\ Enc4(size, opcode) \in Byte /\ Enc5(opcode) \in Byte
  BY DEF Sizes, Opcodes, Byte, Enc1, Enc2, Enc3, Enc4, Enc5, IsLarge

LEMMA MarkerLarge == \A size \in Sizes : size > 32767 => ((size \div 65536) % 256) + 128 >= 128
  BY DEF Sizes
LEMMA MarkerSmall == \A size \in Sizes : ~(size > 32767) => ~((size \div 256) % 256 >= 128)
  BY DEF Sizes
THEOREM CodecMarker ==
    \A size \in Sizes : Marker(Enc1(size)) <=> IsLarge(size)
  BY MarkerLarge, MarkerSmall DEF Marker, Enc1, IsLarge

THEOREM CodecSmall ==
    \A size \in Sizes, opcode \in Opcodes :
        ~IsLarge(size) =>
            /\ SmallSize(Enc1(size), Enc2(size)) = size
            /\ SmallOpcode(Enc3(size, opcode), Enc4(size, opcode)) = opcode
<1> SUFFICES ASSUME NEW size \in Sizes, NEW opcode \in Opcodes, ~IsLarge(size)
             PROVE /\ SmallSize(Enc1(size), Enc2(size)) = size
                   /\ SmallOpcode(Enc3(size, opcode), Enc4(size, opcode)) = opcode
  OBVIOUS
<1>1. size \in 0..32767
  BY DEF Sizes, IsLarge
<1>2. (size \div 256) % 256 = size \div 256
  BY <1>1
<1>3. ((size \div 256) * 256) + (size % 256) = size
  BY <1>1
<1>4. (opcode \div 256) % 256 = opcode \div 256
  BY DEF Opcodes
<1>5. ((opcode \div 256) * 256) + (opcode % 256) = opcode
  BY DEF Opcodes
<1> QED BY <1>2, <1>3, <1>4, <1>5 DEF SmallSize, SmallOpcode, Enc1, Enc2, Enc3, Enc4

THEOREM CodecLarge ==
    \A size \in Sizes, opcode \in Opcodes :
        IsLarge(size) =>
            /\ LargeSize(Enc1(size), Enc2(size), Enc3(size, opcode)) = size
            /\ LargeOpcode(Enc4(size, opcode), Enc5(opcode)) = opcode
<1> SUFFICES ASSUME NEW size \in Sizes, NEW opcode \in Opcodes, IsLarge(size)
             PROVE /\ LargeSize(Enc1(size), Enc2(size), Enc3(size, opcode)) = size
                   /\ LargeOpcode(Enc4(size, opcode), Enc5(opcode)) = opcode
  OBVIOUS
<1> DEFINE hi == size \div 65536
           mid == (size \div 256) % 256
           lo == size % 256
<1>1. hi \in Nat /\ hi < 128 /\ hi % 256 = hi
  BY DEF Sizes
<1>2. (hi + 128) % 128 = hi
  BY <1>1
<1>3. (hi * 65536) + (mid * 256) + lo = size
  BY DEF Sizes
<1>4. (opcode \div 256) % 256 = opcode \div 256
  BY DEF Opcodes
<1>5. ((opcode \div 256) * 256) + (opcode % 256) = opcode
  BY DEF Opcodes
<1> QED BY <1>1, <1>2, <1>3, <1>4, <1>5 DEF LargeSize, LargeOpcode, Enc1, Enc2, Enc3, Enc4, Enc5
=============================================================================
