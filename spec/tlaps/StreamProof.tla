----------------------------- MODULE StreamProof -----------------------------
(***************************************************************************)
(* Machine-checked proof (TLAPS) of the unbounded form of C07 / C08: for   *)
(* ANY key length and key, ANY number of bytes, the decrypter of the       *)
(* Vanilla / TBC header cipher stays in the state of its peer's encrypter  *)
(* and recovers every byte sent.  Same per-byte recurrence as              *)
(* StreamCipher!EncByte / DecByte (TLC decides it there by enumerating all *)
(* states for the two concrete key lengths; here nothing is bounded).      *)
(* XOR enters only through the two facts assumed of it: it maps bytes to   *)
(* bytes and x XOR k XOR k = x.                                            *)
(*    THEOREM InStepAlways == Spec => []InStep                             *)
(***************************************************************************)
EXTENDS Integers, TLAPS

Byte == 0..255

CONSTANTS KeyLen, key, Xor(_, _)

ASSUME KeyAssumption == KeyLen \in Nat \ {0} /\ key \in [0..(KeyLen - 1) -> Byte]
ASSUME XorAssumption == \A a, k \in Byte : Xor(a, k) \in Byte /\ Xor(Xor(a, k), k) = a

EncByte(k, p, x) == (Xor(x, k) + p) % 256
DecByte(k, p, c) == Xor((c + 256 - p) % 256, k)

VARIABLES ei, ep,        \* the encrypter: key position, previous ciphertext byte
          di, dp,        \* the decrypter of the peer
          sent, rcvd     \* the last byte given to the encrypter / returned by the decrypter

vars == <<ei, ep, di, dp, sent, rcvd>>

Init == ei = 0 /\ ep = 0 /\ di = 0 /\ dp = 0 /\ sent = 0 /\ rcvd = 0

\* one byte travels from the encrypter to the decrypter
Send(x) ==
    LET c == EncByte(key[ei], ep, x)
    IN /\ ei' = (ei + 1) % KeyLen /\ ep' = c
       /\ di' = (di + 1) % KeyLen /\ dp' = c
       /\ sent' = x
       /\ rcvd' = DecByte(key[di], dp, c)

Next == \E x \in Byte : Send(x)
Spec == Init /\ [][Next]_vars

InStep == /\ ei \in 0..(KeyLen - 1) /\ ep \in Byte
          /\ di = ei /\ dp = ep
          /\ sent \in Byte /\ rcvd = sent

LEMMA ByteInverse == \A k, p, x \in Byte : EncByte(k, p, x) \in Byte /\ DecByte(k, p, EncByte(k, p, x)) = x
<1> SUFFICES ASSUME NEW k \in Byte, NEW p \in Byte, NEW x \in Byte
             PROVE EncByte(k, p, x) \in Byte /\ DecByte(k, p, EncByte(k, p, x)) = x
  OBVIOUS
<1> DEFINE y == Xor(x, k)
<1>1. y \in Byte /\ Xor(y, k) = x
  BY XorAssumption
<1>2. (y + p) % 256 \in Byte
  BY <1>1 DEF Byte
<1>3. (((y + p) % 256) + 256 - p) % 256 = y
  BY <1>1 DEF Byte
<1> QED BY <1>1, <1>2, <1>3 DEF EncByte, DecByte

\* the converse direction: encrypting what a decrypter produced gives back the ciphertext
LEMMA ByteInverse2 == \A k, p, c \in Byte : DecByte(k, p, c) \in Byte /\ EncByte(k, p, DecByte(k, p, c)) = c
<1> SUFFICES ASSUME NEW k \in Byte, NEW p \in Byte, NEW c \in Byte
             PROVE DecByte(k, p, c) \in Byte /\ EncByte(k, p, DecByte(k, p, c)) = c
  OBVIOUS
<1> DEFINE z == (c + 256 - p) % 256
<1>1. z \in Byte
  BY DEF Byte
<1>2. Xor(z, k) \in Byte /\ Xor(Xor(z, k), k) = z
  BY <1>1, XorAssumption
<1>3. (z + p) % 256 = c
  BY DEF Byte
<1> QED BY <1>1, <1>2, <1>3 DEF EncByte, DecByte

LEMMA InitInStep == Init => InStep
  BY KeyAssumption DEF Init, InStep, Byte

LEMMA StepInStep == InStep /\ [Next]_vars => InStep'
<1> SUFFICES ASSUME InStep, [Next]_vars PROVE InStep'
  OBVIOUS
<1>1. CASE UNCHANGED vars
  BY <1>1 DEF InStep, vars
<1>2. CASE Next
  <2> PICK x \in Byte : Send(x)
    BY <1>2 DEF Next
  <2>1. key[ei] \in Byte
    BY KeyAssumption DEF InStep
  <2> DEFINE c == EncByte(key[ei], ep, x)
  <2>2. c \in Byte /\ DecByte(key[ei], ep, c) = x
    BY <2>1, ByteInverse DEF InStep
  <2>3. ei' = (ei + 1) % KeyLen /\ di' = ei' /\ ep' = c /\ dp' = c /\ sent' = x /\ rcvd' = DecByte(key[ei], ep, c)
    BY DEF Send, InStep
  <2>4. (ei + 1) % KeyLen \in 0..(KeyLen - 1)
    BY KeyAssumption DEF InStep
  <2> QED BY <2>2, <2>3, <2>4 DEF InStep
<1> QED BY <1>1, <1>2

THEOREM InStepAlways == Spec => []InStep
  BY InitInStep, StepInStep, PTL DEF Spec
=============================================================================
