--------------------------- MODULE ReconnectProof ---------------------------
(***************************************************************************)
(* Machine-checked proof (TLAPS) of the unbounded-history argument for     *)
(* C05.  Same machine as spec/apalache/ReconnectInd.tla (the reconnect     *)
(* step of Auth!VerifyReconnect with the hash as an injective constructor: *)
(* a proof is the record of the four hashed fields; challenges are values  *)
(* of an arbitrary set, and every attempt replaces the challenge on offer  *)
(* by one never offered before - which is what C15 establishes for the     *)
(* implementation's draws).  Nothing is bounded here: client data, names,  *)
(* keys and challenges range over arbitrary sets, histories over any       *)
(* length.                                                                 *)
(*    THEOREM Safety == Spec => [](OnlyCurrent /\ SingleUse)               *)
(***************************************************************************)
EXTENDS Integers, TLAPS

CONSTANTS Chal,      \* challenge values
          Data,      \* client challenge values
          Name,      \* user names
          Key,       \* session keys
          U0, K0, C0 \* the session's name and key, the first challenge

ASSUME Assumptions == U0 \in Name /\ K0 \in Key /\ C0 \in Chal

VARIABLES chal, offered, accepted

vars == <<chal, offered, accepted>>

Tried == [c : Chal, cd : Data, u : Name, k : Key, sd : Chal]

Init == chal = C0 /\ offered = {C0} /\ accepted = {}

\* an attempt presents client data cd and proof = Hash(u | cd | sd | k) for any fields the peer likes;
\* the proof equals the server's Hash(U0 | cd | chal | K0) iff all fields are equal (the hash is injective)
Attempt(cd, u, k, sd, fresh) ==
    /\ fresh \notin offered
    /\ accepted' = IF u = U0 /\ k = K0 /\ sd = chal
                   THEN accepted \cup {[c |-> chal, cd |-> cd, u |-> u, k |-> k, sd |-> sd]}
                   ELSE accepted
    /\ chal' = fresh
    /\ offered' = offered \cup {fresh}

Next == \E cd \in Data, u \in Name, k \in Key, sd \in Chal, fresh \in Chal : Attempt(cd, u, k, sd, fresh)

Spec == Init /\ [][Next]_vars

IndInv ==
    /\ chal \in offered
    /\ offered \subseteq Chal
    /\ accepted \subseteq Tried
    /\ \A t \in accepted : t.c \in offered /\ t.c # chal /\ t.sd = t.c /\ t.u = U0 /\ t.k = K0

\* what C05 states
OnlyCurrent == \A t \in accepted : t.sd = t.c /\ t.u = U0 /\ t.k = K0     \* accepted only for the challenge then on offer
SingleUse == \A t \in accepted : t.c # chal          \* a challenge an accepted proof used is never on offer again

LEMMA InitInv == Init => IndInv
  BY Assumptions DEF Init, IndInv

LEMMA StepInv == IndInv /\ [Next]_vars => IndInv'
<1> SUFFICES ASSUME IndInv, [Next]_vars PROVE IndInv'
  OBVIOUS
<1>1. CASE UNCHANGED vars
  BY <1>1 DEF IndInv, vars
<1>2. CASE Next
  <2> PICK cd \in Data, u \in Name, k \in Key, sd \in Chal, fresh \in Chal : Attempt(cd, u, k, sd, fresh)
    BY <1>2 DEF Next
  <2>1. chal' \in offered' /\ offered' \subseteq Chal
    BY DEF Attempt, IndInv
  <2>2. accepted' \subseteq Tried
    BY DEF Attempt, IndInv, Tried
  <2>3. \A t \in accepted' : t.c \in offered' /\ t.c # chal' /\ t.sd = t.c /\ t.u = U0 /\ t.k = K0
    BY DEF Attempt, IndInv
  <2> QED BY <2>1, <2>2, <2>3 DEF IndInv
<1> QED BY <1>1, <1>2

LEMMA InvImplies == IndInv => OnlyCurrent /\ SingleUse
  BY DEF IndInv, OnlyCurrent, SingleUse

THEOREM Safety == Spec => [](OnlyCurrent /\ SingleUse)
<1>1. Spec => []IndInv
  BY InitInv, StepInv, PTL DEF Spec
<1> QED BY <1>1, InvImplies, PTL
=============================================================================
