----------------------------- MODULE SessionAbs -----------------------------
(***************************************************************************)
(* What the login exchange is FOR, without any arithmetic: a server and a  *)
(* client each end up holding a session key or a refusal.                  *)
(*    sKey, cKey   NoKey, or the key each side derived                     *)
(*    srv          "idle" -> "offered" -> "accepted" | "refused"           *)
(*    cli          "idle" -> "proved"  -> "accepted" | "refused"           *)
(* The abstract rules:                                                     *)
(*    the server accepts only a client that derived the server's own key;  *)
(*    the client accepts only after the server accepted (it has seen the   *)
(*    server's proof of the same key);                                     *)
(*    a side that refused holds no key;                                    *)
(*    whenever both sides accepted they hold the same key.                 *)
(* The concrete machine (Auth, in a small group, every key pair, honest    *)
(* and wrong-password clients) is checked to IMPLEMENT this specification  *)
(* under a refinement mapping by spec/mc/MCRefine.                         *)
(***************************************************************************)
CONSTANT Keys          \* the set of possible session keys
NoKey == <<>>          \* (a sequence, so that TLC can compare it with keys, which are byte sequences)

VARIABLES srv, cli, sKey, cKey
avars == <<srv, cli, sKey, cKey>>

AInit == srv = "idle" /\ cli = "idle" /\ sKey = NoKey /\ cKey = NoKey

\* the server publishes its challenge (salt, B)
Offer == srv = "idle" /\ srv' = "offered" /\ UNCHANGED <<cli, sKey, cKey>>

\* the client derives a key from what it knows and sends its proof
Prove == /\ srv = "offered" /\ cli = "idle"
         /\ cKey' \in Keys
         /\ cli' = "proved" /\ UNCHANGED <<srv, sKey>>

\* the server's verdict: it derives its own key and accepts only if the client's proof shows the same key
\* (that an honest client IS accepted is the separate invariant HonestAgree of the concrete models)
Verdict == /\ srv = "offered" /\ cli = "proved"
           /\ \/ srv' = "accepted" /\ sKey' = cKey
              \/ srv' = "refused" /\ sKey' = NoKey
           /\ UNCHANGED <<cli, cKey>>

\* the client's verdict on the server's proof
ClientVerdict == /\ cli = "proved" /\ srv \in {"accepted", "refused"}
                 /\ IF srv = "accepted" THEN cli' = "accepted" /\ cKey' = cKey
                                        ELSE cli' = "refused" /\ cKey' = NoKey
                 /\ UNCHANGED <<srv, sKey>>

\* a side gives up before the exchange completes (own key unusable, connection dropped)
Abort == /\ srv \in {"idle", "offered"} /\ cli \in {"idle", "proved"}
         /\ srv' = "refused" /\ cli' = "refused" /\ sKey' = NoKey /\ cKey' = NoKey

ANext == Offer \/ Prove \/ Verdict \/ ClientVerdict \/ Abort
ASpec == AInit /\ [][ANext]_avars

AgreeWhenBothAccept == (srv = "accepted" /\ cli = "accepted") => (sKey = cKey /\ sKey # NoKey)
NoKeyOnRefusal == (srv = "refused" => sKey = NoKey) /\ (cli = "refused" => cKey = NoKey)
ClientOnlyAfterServer == cli = "accepted" => srv = "accepted"
=============================================================================
