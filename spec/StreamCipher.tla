---------------------------- MODULE StreamCipher ----------------------------
(***************************************************************************)
(* The Vanilla / TBC world-packet header cipher, as a per-byte state       *)
(* machine over (key, position i, previous ciphertext byte p):             *)
(*     c = ((x XOR key[i]) + p) mod 256 ;  i' = (i + 1) mod Len(key) ;     *)
(*     p' = c           (encrypt)                                          *)
(*     x = ((c - p) mod 256) XOR key[i] ;  i' likewise ; p' = c  (decrypt) *)
(* Vanilla: key = the 40-byte session key.  TBC: key = HMAC-SHA1(TbcSeed,  *)
(* session key), 20 bytes.  A call is the sequence of its bytes; a         *)
(* zero-length call is a stutter.                                          *)
(***************************************************************************)
EXTENDS Prim, SequencesExt

TbcSeed == <<56, 167, 131, 21, 248, 146, 37, 48, 113, 152, 103, 177, 140, 4, 226, 170>>

CipherKey(exp, K) == IF exp = "vanilla" THEN K ELSE HMACSHA1(TbcSeed, K)

EncByte(key, i, p, x) == ((x ^^ key[i + 1]) + p) % 256
DecByte(key, i, p, c) == ((c + 256 - p) % 256) ^^ key[i + 1]

St0 == [i |-> 0, p |-> 0]

\* per-byte actions as state functions
EncStep(key, st, x) == LET c == EncByte(key, st.i, st.p, x)
                       IN [i |-> (st.i + 1) % Len(key), p |-> c, o |-> c]
DecStep(key, st, c) == [i |-> (st.i + 1) % Len(key), p |-> c, o |-> DecByte(key, st.i, st.p, c)]

\* a call = fold of the byte action over its data; result <<output, state'>>
EncRun(key, st, data) ==
    LET r == FoldLeft(LAMBDA acc, x : LET s == EncStep(key, acc, x)
                                      IN [i |-> s.i, p |-> s.p, out |-> Append(acc.out, s.o)],
                      [i |-> st.i, p |-> st.p, out |-> <<>>], data)
    IN << r.out, [i |-> r.i, p |-> r.p] >>
DecRun(key, st, data) ==
    LET r == FoldLeft(LAMBDA acc, c : LET s == DecStep(key, acc, c)
                                      IN [i |-> s.i, p |-> s.p, out |-> Append(acc.out, s.o)],
                      [i |-> st.i, p |-> st.p, out |-> <<>>], data)
    IN << r.out, [i |-> r.i, p |-> r.p] >>

(* The same relation stated per position (no accumulation; linear to evaluate on long calls): *)
(* out is the encryption of inp from state st.                                                 *)
EncRel(key, st, inp, out) ==
    /\ Len(out) = Len(inp)
    /\ \A n \in 1..Len(inp) :
          out[n] = EncByte(key, (st.i + n - 1) % Len(key), IF n = 1 THEN st.p ELSE out[n - 1], inp[n])
DecRel(key, st, inp, out) ==
    /\ Len(out) = Len(inp)
    /\ \A n \in 1..Len(inp) :
          out[n] = DecByte(key, (st.i + n - 1) % Len(key), IF n = 1 THEN st.p ELSE inp[n - 1], inp[n])
\* state after a call whose ciphertext (output of encrypt, input of decrypt) is cph
After(key, st, cph) == [i |-> (st.i + Len(cph)) % Len(key),
                        p |-> IF Len(cph) = 0 THEN st.p ELSE cph[Len(cph)]]

(* Wire layouts shared by the three expansions *)
ServerWire(size, opcode) == U16BE(size) \o U16LE(opcode)            \* 4 bytes, size/opcode < 2^16
ClientWire(size, opcode4) == U16BE(size) \o opcode4                  \* 6 bytes, opcode as 4 LE bytes
ParseServer(b) == [size |-> BE16(b[1], b[2]), opcode |-> LE16(b[3], b[4])]
ParseClient(b) == [size |-> BE16(b[1], b[2]), opcode |-> SubSeq(b, 3, 6)]
=============================================================================
