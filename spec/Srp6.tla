-------------------------------- MODULE Srp6 --------------------------------
(***************************************************************************)
(* The World of Warcraft flavour of SRP6, byte-exact.                      *)
(*                                                                         *)
(* SHA-1, k = 3, all fields little-endian: 32-byte keys/verifier/salt,     *)
(* 20-byte hashes interpreted as little-endian numbers, 40-byte session    *)
(* key by the RFC 2945 interleave taken over the little-endian secret S    *)
(* after removing leading (low-order) zero bytes and one more if an odd    *)
(* number was removed.                                                     *)
(*                                                                         *)
(* Every operator takes the group (g: one byte, N: 32-byte little-endian)  *)
(* explicitly, so the same text serves the built-in group, groups announced*)
(* by a server, and the small groups of the exhaustive models.             *)
(***************************************************************************)
EXTENDS Prim

\* The hash function.  Concrete instances substitute SHA1 (Hash <- SHA1 in the .cfg); the
\* symbolic design models substitute an injective constructor.
CONSTANT Hash(_)

KeyLen == 32

\* the built-in group
WoWN == <<183, 155, 62, 42, 135, 130, 60, 171, 143, 94, 191, 191, 142, 177, 1, 8,
          83, 80, 6, 41, 139, 91, 173, 189, 91, 83, 225, 137, 94, 100, 75, 137>>
WoWg == 7
K3   == <<3>>

\* x = H(salt | H(U | ":" | P)), U and P already normalised (upper case)
X(U, P, salt) == Hash(salt \o Hash(U \o <<58>> \o P))

\* v = g^x mod N
Verifier(g, N, U, P, salt) == Pad(BnModExp(<<g>>, X(U, P, salt), N), KeyLen)

\* B = (k*v + g^b) mod N      (v is used as stored, reduced or not)
ServerPub(g, N, v, b) == Pad(BnMod(BnAdd(BnMul(K3, v), BnModExp(<<g>>, b, N)), N), KeyLen)

\* A = g^a mod N
ClientPub(g, N, a) == Pad(BnModExp(<<g>>, a, N), KeyLen)

\* u = H(A | B)
Uh(A, B) == Hash(A \o B)

\* server: S = (A * v^u)^b mod N
ServerS(N, A, v, u, b) == Pad(BnModExp(BnMul(A, BnModExp(v, u, N)), b, N), KeyLen)

\* client: S = (B - k*g^x)^(a + u*x) mod N, base reduced into [0, N), exponent unreduced
ClientS(g, N, B, x, a, u) ==
    Pad(BnModExp(BnSubMod(B, BnMul(K3, BnModExp(<<g>>, x, N)), N),
                 BnAdd(a, BnMul(u, x)), N), KeyLen)

\* RFC 2945 SHA_Interleave over the little-endian S
Strip(S) == LET z == LeadingZeros(S)
                t == IF z % 2 = 1 THEN z + 1 ELSE z
            IN SubSeq(S, t + 1, Len(S))
SrpInterleave(S) ==
    LET s == Strip(S)
        h == Len(s) \div 2
        G == Hash([i \in 1..h |-> s[2*i - 1]])
        F == Hash([i \in 1..h |-> s[2*i]])
    IN [i \in 1..40 |-> IF i % 2 = 1 THEN G[(i + 1) \div 2] ELSE F[i \div 2]]

\* H(N) xor H(g), N as the 32 bytes announced
XorHash(g, N) == XorBytes(Hash(N), Hash(<<g>>))

\* M1 = H( H(N) xor H(g) | H(U) | salt | A | B | K )
M1(g, N, U, salt, A, B, K) == Hash(XorHash(g, N) \o Hash(U) \o salt \o A \o B \o K)
\* M2 = H( A | M1 | K )
M2(A, m1, K) == Hash(A \o m1 \o K)

\* reconnect proof = H( U | client challenge | server challenge | K )
ReconnectProof(U, cdata, sdata, K) == Hash(U \o cdata \o sdata \o K)

\* world-server proof = H( U | 0^4 | client seed | server seed | K ), seeds 4 bytes LE
WorldProof(U, cseed, sseed, K) == Hash(U \o Zeros(4) \o cseed \o sseed \o K)

\* complete session key computations
ServerK(N, A, B, v, b) == SrpInterleave(ServerS(N, A, v, Uh(A, B), b))
ClientK(g, N, U, P, salt, A, B, a) == SrpInterleave(ClientS(g, N, B, X(U, P, salt), a, Uh(A, B)))

(***************************************************************************)
(* Public-key validity: a key is refused exactly when it is congruent to   *)
(* zero modulo N.  For the built-in group 2N >= 2^256, so the refused      *)
(* 32-byte arrays are exactly 0 and N.                                     *)
(***************************************************************************)
KeyValid(k, N)   == ~BnIsZero(BnMod(k, N))
KeyErrKind(k)    == IF AllZero(k) THEN "zero" ELSE "modN"
TwoNOverflows(N) == BnCmp(BnMul(<<2>>, N), Zeros(KeyLen) \o <<1>>) >= 0   \* 2N >= 2^256
=============================================================================
