#!/bin/sh
# Build the framework from files on disk only (offline).
set -e
cd "$(dirname "$0")"
mkdir -p out/classes evidence
javac -cp /opt/veriftools/tla/tla2tools.jar -d out/classes java/wowsrp/*.java
