#!/bin/sh
# Build the framework from files on disk only (offline): Java overrides, harness, primitive self-test.
set -e
cd "$(dirname "$0")"
export CARGO_NET_OFFLINE=true
mkdir -p out/classes evidence out/replays
javac -cp /opt/veriftools/tla/tla2tools.jar -d out/classes java/wowsrp/*.java
(cd harness && cargo build --release --offline 2>&1 | tail -3)
# the specification's primitives must agree with their TLA+ definitions before they judge anything
tools/tlc.sh selftest MCPrimSelfTest -workers 1 > out/selftest.log 2>&1 || { tail -30 out/selftest.log; echo "setup: MCPrimSelfTest failed"; exit 1; }
grep -q "No error has been found" out/selftest.log || { tail -30 out/selftest.log; exit 1; }
echo "setup ok"
# the GMP-backed build of the harness (C19); the shim makes gmp-mpfr-sys accept the system GMP
(cd harness && C_INCLUDE_PATH="$PWD/../tools/gmpshim" CARGO_TARGET_DIR="$PWD/target-fast" cargo build --release --offline --no-default-features --features fast 2>&1 | tail -2)
echo "setup done"
