//! Drivers for credential strings (C13), randomness (C15), PIN (C16), integrity (C17), matrix card (C18).

use crate::util::*;
use rand::rngs::StdRng;
use rand::{Rng, RngCore, SeedableRng};
use serde_json::{json, Value};
use sha1::{Digest, Sha1};
use std::collections::hash_map::DefaultHasher;
use std::convert::TryFrom;
use std::hash::{Hash, Hasher};
use wow_srp::error::NormalizedStringError;
use wow_srp::normalized_string::NormalizedString;

fn norm_res(r: Result<Result<NormalizedString, NormalizedStringError>, String>) -> Value {
    match r {
        Ok(Ok(n)) => json!({"kind": "ok", "text": b(n.as_ref().as_bytes()), "display": b(n.to_string().as_bytes())}),
        Ok(Err(e @ NormalizedStringError::StringTooLong)) => json!({"kind": "errLen", "etext": b(e.to_string().as_bytes())}),
        Ok(Err(NormalizedStringError::CharacterNotAllowed(c))) => json!({"kind": "errChar", "cp": c as u32,
            "etext": b(NormalizedStringError::CharacterNotAllowed(c).to_string().as_bytes())}),
        Err(m) => panic_res(&m),
    }
}

static NOISY: std::sync::atomic::AtomicBool = std::sync::atomic::AtomicBool::new(false);
static NOISE_CTR: std::sync::atomic::AtomicUsize = std::sync::atomic::AtomicUsize::new(0);
/// while NOISY is set, unrelated calls into other modules precede every recorded call (see util::noise)
fn maybe_noise() {
    use std::sync::atomic::Ordering;
    if NOISY.load(Ordering::Relaxed) {
        crate::util::noise(NOISE_CTR.fetch_add(1, Ordering::Relaxed) + 3);
    }
}
fn set_noisy(on: bool) {
    NOISY.store(on, std::sync::atomic::Ordering::Relaxed);
}

fn norm_all(tr: &mut Tr, s: &str) {
    maybe_noise();
    let rs = vec![
        norm_res(guard(|| NormalizedString::new(s))),
        norm_res(guard(|| NormalizedString::from_str(s))),
        norm_res(guard(|| NormalizedString::from_string(s))),
        norm_res(guard(|| NormalizedString::try_from(s))),
        norm_res(guard(|| NormalizedString::try_from(s.to_string()))),
        norm_res(guard(|| NormalizedString::new(s.to_string()))),
    ];
    tr.ev(json!({"ev": "Norm", "cps": cps(s), "res": rs}));
}

fn hash_of(n: &NormalizedString) -> u64 {
    let mut h = DefaultHasher::new();
    n.hash(&mut h);
    h.finish()
}

fn norm_cmp(tr: &mut Tr, a: &str, bs: &str) {
    maybe_noise();
    let (Ok(x), Ok(y)) = (NormalizedString::new(a), NormalizedString::new(bs)) else { return };
    let ord = match x.cmp(&y) {
        std::cmp::Ordering::Less => -1,
        std::cmp::Ordering::Equal => 0,
        std::cmp::Ordering::Greater => 1,
    };
    let pord = match x.partial_cmp(&y) {
        Some(std::cmp::Ordering::Less) => -1,
        Some(std::cmp::Ordering::Equal) => 0,
        Some(std::cmp::Ordering::Greater) => 1,
        None => 9,
    };
    tr.ev(json!({"ev": "NormCmp", "a": cps(a), "b": cps(bs),
        "res": {"eq": x == y, "ne": x != y, "lt": x < y, "le": x <= y, "gt": x > y, "ge": x >= y,
                "ord": ord, "pord": pord, "hashEq": hash_of(&x) == hash_of(&y), "cloneEq": x.clone() == x,
                "renorm": norm_res(guard(|| NormalizedString::new(x.as_ref())))}}));
}

fn rand_string(r: &mut StdRng) -> String {
    let n = r.gen_range(0..22);
    (0..n)
        .map(|_| match r.gen_range(0..10) {
            0 => char::from_u32(r.gen_range(0..0x20)).unwrap(),
            1 => '\u{7f}',
            2 => char::from_u32(r.gen_range(0x80..0x800)).unwrap(),
            3 => char::from_u32(r.gen_range(0x800..0xD800)).unwrap(),
            4 => char::from_u32(r.gen_range(0x10000..0x110000)).unwrap(),
            _ => r.gen_range(0x20u8..0x7f) as char,
        })
        .collect()
}

pub fn run_norm(args: &Args) -> (u64, u64) {
    let mut tr = Tr::create(&args.out);
    let mut rng = StdRng::seed_from_u64(args.seed);
    let thorough = args.tier == "thorough";
    tr.reset("norm");
    let mut strings: Vec<String> = vec![];
    if let Some(p) = &args.scen {
        for s in read_ndjson(p) {
            strings.push(jstr_from_cps(&s["cps"]));
        }
    }
    for _ in 0..(if thorough { 100_000 } else { 3000 }) {
        strings.push(rand_string(&mut rng));
    }
    for s in &strings {
        norm_all(&mut tr, s);
    }
    // construction is a pure function of the input: related strings one after the other (A, B, A): another case, one
    // character changed or appended, the same first eight bytes, the same length
    {
        let bases: Vec<String> = strings.iter().filter(|s| !s.is_empty() && s.len() <= 16 && s.is_ascii()).take(if thorough { 400 } else { 40 }).cloned().collect();
        for (k, a) in bases.iter().enumerate() {
            let mut bb = a.clone().into_bytes();
            let pos = k % bb.len();
            let variant: String = match k % 5 {
                0 => a.to_ascii_lowercase(),
                1 => { bb[pos] = if bb[pos] == b'Q' { b'R' } else { b'Q' }; String::from_utf8_lossy(&bb).to_string() }
                2 => format!("{}z", a),
                3 => { let l = bb.len(); bb[l - 1] = b'{'; String::from_utf8_lossy(&bb).to_string() }
                _ => a.chars().rev().collect(),
            };
            norm_all(&mut tr, a);
            norm_all(&mut tr, &variant);
            norm_all(&mut tr, a);
            norm_cmp(&mut tr, a, &variant);
            norm_cmp(&mut tr, &variant, a);
        }
    }
    // consecutive inputs that collide under weak fingerprints: anagrams (same length, sum and XOR), pairs equal under the
    // polynomial hashes of base 31 and 33, one position moved up and another down by the same amount, a valid input
    // followed by an invalid one of the same length - the result depends on every byte of THIS input only
    {
        let fams: Vec<Vec<&str>> = vec![
            vec!["Aa", "BB", "Aa", "C#"],
            vec!["AaAa", "BBBB", "AaBB", "BBAa"],
            vec!["Ab", "BA", "ab", "bA"],
            vec!["hunter2", "huntdrQ", "hunter2", "2retnuh", "hunter3", "hunter1"],
            vec!["listen", "silent", "enlist", "tinsel", "LISTEN"],
            vec!["AC", "BB", "CA", "B\u{1}", "BB"],
            vec!["abcdefgh12345678", "12345678abcdefgh", "abcdefgh12345679", "abcdefgh1234567\u{7f}"],
            vec!["Dhk", "A\u{e9}", "Dhk", "Dh\u{0}"],
            vec!["zz", "{y", "y{", "zz"],
        ];
        // line endings, blanks, tabs, NULs and a byte order mark before or after otherwise valid names, at and around
        // the length limit: every constructor gives the same verdict (none of them trims anything)
        let mut edge: Vec<String> = vec![];
        for core in ["alice", "ABCDEFGHIJKLMN", "ABCDEFGHIJKLMNO", "ABCDEFGHIJKLMNOP", ""] {
            for t in ["\r\n", "\n", "\r", " ", "  ", "\t", "\0", "\u{feff}", "\u{a0}", "\u{7f}"] {
                edge.push(format!("{}{}", core, t));
                edge.push(format!("{}{}", t, core));
            }
        }
        set_noisy(true);
        // lengths around every power of 256 (and 2^15, 2^16 +- a few): always too long, whatever a narrower counter makes of it
        // (lengths of 2^16 + 1 .. 2^16 + 16 were tried and dropped: TLC's trace validation does not get through events of that size)
        for n in [17usize, 255, 256, 257, 258, 271, 272, 273, 511, 512, 513, 528, 1025, 4097] {
            edge.push("a".repeat(n));
            if n < 70000 {
                let mut t = "Ab1".repeat(n / 3 + 1);
                t.truncate(n);
                edge.push(t);
            }
        }
        for a in &edge {
            norm_all(&mut tr, a);
        }
        set_noisy(false);      // (the families below rely on being CONSECUTIVE calls)
        for fam in &fams {
            for a in fam {
                norm_all(&mut tr, a);
            }
            for i in 0..fam.len() {
                norm_cmp(&mut tr, fam[i], fam[(i + 1) % fam.len()]);
            }
        }
    }
    // equality / order / hash / display between inputs with equal or different normalisations
    let valid: Vec<&String> = strings.iter().filter(|s| NormalizedString::new(s.as_str()).is_ok()).collect();
    let pairs = if thorough { 20000 } else { 2000 };
    for k in 0..pairs {
        if valid.is_empty() {
            break;
        }
        let a = valid[rng.gen_range(0..valid.len())];
        let bs: String = match k % 4 {
            0 => a.to_ascii_uppercase(),
            1 => a.to_ascii_lowercase(),
            2 => {
                let mut t = a.clone();
                t.pop();
                if t.is_empty() { "x".to_string() } else { t }
            }
            _ => valid[rng.gen_range(0..valid.len())].clone(),
        };
        norm_cmp(&mut tr, a, &bs);
    }
    // ordering / equality / hashing of strings that share a prefix and differ in one or two later positions
    for base in ["AAAAAAAAAAAAAAAA", "abcdefghijklmnop", "0123456789", "zzzzzzzzzzzz"] {
        let bb: Vec<u8> = base.bytes().collect();
        for i in 0..bb.len() {
            for j in (i + 1)..bb.len() {
                if !thorough && (i * 7 + j) % 3 != 0 {
                    continue;
                }
                let mut x = bb.clone();
                let mut y = bb.clone();
                x[i] = b'B';
                y[j] = b'B';
                norm_cmp(&mut tr, std::str::from_utf8(&x).unwrap(), std::str::from_utf8(&y).unwrap());
                let mut z = bb.clone();
                z[i] = b'!';
                z[j] = b'~';
                norm_cmp(&mut tr, std::str::from_utf8(&x).unwrap(), std::str::from_utf8(&z).unwrap());
            }
        }
        // proper prefixes against the full string
        for n in 1..bb.len() {
            norm_cmp(&mut tr, &base[..n], base);
        }
    }
    // exhaustive sweep: every Unicode scalar value at position `pos` of an otherwise valid string
    let positions: Vec<usize> = if thorough { (0..=16).collect() } else { vec![0, 7, 15] };
    for pos in positions {
        for total_ascii in [pos + 1, 16usize] {
            if total_ascii <= pos {
                continue;
            }
            // string = 'a' * pos + c + 'z' * (total_ascii - pos - 1)
            let suffix = total_ascii - pos - 1;
            let mut runs: Vec<(u32, u32, i64)> = vec![];
            let mut cpv = 0u32;
            while cpv <= 0x10FFFF {
                if (0xD800..=0xDFFF).contains(&cpv) {
                    cpv = 0xE000;
                }
                let c = char::from_u32(cpv).unwrap();
                let mut s = String::with_capacity(24);
                for _ in 0..pos {
                    s.push('a');
                }
                s.push(c);
                for _ in 0..suffix {
                    s.push('z');
                }
                let code: i64 = match guard(|| NormalizedString::new(&s)) {
                    Ok(Ok(n)) => {
                        let bs = n.as_ref().as_bytes();
                        // the whole stored text must be the expected frame around the byte
                        let frame_ok = bs.len() == total_ascii && bs[..pos].iter().all(|x| *x == b'A') && bs[pos + 1..].iter().all(|x| *x == b'Z');
                        if frame_ok { 1000 + bs[pos] as i64 } else { 999 }
                    }
                    Ok(Err(NormalizedStringError::StringTooLong)) => 3,
                    Ok(Err(NormalizedStringError::CharacterNotAllowed(e))) => if e == c { 1 } else { 2 },
                    Err(_) => 4,
                };
                match runs.last_mut() {
                    Some(r) if r.2 == code && code < 1000 => r.1 = cpv,
                    _ => runs.push((cpv, cpv, code)),
                }
                cpv += 1;
            }
            let rj: Vec<Value> = runs.iter().map(|r| json!([r.0, r.1, r.2])).collect();
            tr.ev(json!({"ev": "NormSweep", "pos": pos, "suffix": suffix, "runs": rj}));
        }
    }
    tr.finish()
}

// ------------------------------------------------------------------------------- PIN
fn pin_event(tr: &mut Tr, pin: u32, seed: u32, ssalt: &[u8; 16], csalt: &[u8; 16]) -> Option<[u8; 20]> {
    maybe_noise();
    let r = guard(|| wow_srp::pin::calculate_hash(pin, seed, ssalt, csalt));
    let res = match &r {
        Ok(Some(h)) => json!({"kind": "some", "hash": b(h)}),
        Ok(None) => json!({"kind": "none"}),
        Err(m) => panic_res(m),
    };
    tr.ev(json!({"ev": "Pin", "pin": u32le(pin), "seed": u32le(seed), "ssalt": b(ssalt), "csalt": b(csalt), "res": res}));
    r.ok().flatten()
}
fn pin_verify_event(tr: &mut Tr, pin: u32, seed: u32, ssalt: &[u8; 16], csalt: &[u8; 16], hash: &[u8; 20]) {
    maybe_noise();
    let r = guard(|| wow_srp::pin::verify_client_pin_hash(pin, seed, ssalt, csalt, hash));
    let res = match r {
        Ok(v) => json!({"kind": "bool", "ok": v}),
        Err(m) => panic_res(&m),
    };
    tr.ev(json!({"ev": "PinVerify", "pin": u32le(pin), "seed": u32le(seed), "ssalt": b(ssalt), "csalt": b(csalt), "hash": b(hash), "res": res}));
}

pub fn run_pin(args: &Args) -> (u64, u64) {
    let mut tr = Tr::create(&args.out);
    let mut rng = StdRng::seed_from_u64(args.seed);
    let thorough = args.tier == "thorough";
    tr.reset("pin");
    let mut salts = || {
        let mut a = [0u8; 16];
        let mut c = [0u8; 16];
        rng.fill_bytes(&mut a);
        rng.fill_bytes(&mut c);
        (a, c)
    };
    let mut rng2 = StdRng::seed_from_u64(args.seed ^ 0x5555);
    // PIN length gate: boundaries of every digit count
    let mut pins: Vec<u32> = vec![0, 1, 9, 10, 99, 100, 999, 1000, 1001, 9999, 10000, 99999, 100000, 999_999_999, 1_000_000_000, 1023456789, 4_294_967_295, 4_294_967_294, 2_147_483_647, 2_147_483_648];
    for _ in 0..(if thorough { 3000 } else { 200 }) {
        let digits = rng2.gen_range(1..=10u32);
        let hi = if digits == 10 { u32::MAX } else { 10u32.pow(digits) - 1 };
        let lo = 10u32.pow(digits - 1);
        pins.push(rng2.gen_range(lo..=hi));
    }
    let seeds: Vec<u32> = vec![0, 1, 9, 10, 3628799, 3628800, 3628801, 7257600, u32::MAX, u32::MAX - 1, 4293870400, 2_147_483_647, 2_147_483_648,
        362_880, 725_760, 1_088_640, 40_320, 5_040, 720, 120, 24, 6, 2, 3_265_920, 3_991_680, 4_294_684_800];
    for (k, pin) in pins.iter().enumerate() {
        if k % 60 == 59 {
            tr.reset("pin");
        }
        let (ss, mut cs) = salts();
        if k % 7 == 3 { cs = ss; }          // both salts equal (legal)
        let seed = if k % 3 == 0 { seeds[k % seeds.len()] } else { rng2.gen() };
        let h = pin_event(&mut tr, *pin, seed, &ss, &cs);
        match h {
            Some(h) => {
                pin_verify_event(&mut tr, *pin, seed, &ss, &cs, &h);
                let bits: Vec<usize> = if thorough || k % 40 == 0 { (0..160).collect() } else { vec![k % 160] };
                for bit in bits {
                    let mut h2 = h;
                    h2[bit / 8] ^= 1 << (bit % 8);
                    pin_verify_event(&mut tr, *pin, seed, &ss, &cs, &h2);
                }
                // changes in several bytes at once (equal masks, swapped bytes, complemented tail), random hashes
                for j in 0..6usize {
                    let mut h2 = h;
                    let (a, c) = ((k + j) % 20, (k + 7 * j + 3) % 20);
                    if a != c {
                        h2[a] ^= 1 << (j % 8);
                        h2[c] ^= 1 << (j % 8);
                        pin_verify_event(&mut tr, *pin, seed, &ss, &cs, &h2);
                        let mut h3 = h;
                        h3.swap(a, c);
                        if h3 != h {
                            pin_verify_event(&mut tr, *pin, seed, &ss, &cs, &h3);
                        }
                    }
                }
                for _ in 0..(if thorough { 40 } else { 12 }) {
                    let mut junk = [0u8; 20];
                    rng2.fill_bytes(&mut junk);
                    pin_verify_event(&mut tr, *pin, seed, &ss, &cs, &junk);
                }
                {
                    let rv = crate::util::regroup_variants(&h);
                    for v in rv.iter().step_by((rv.len() / 3).max(1)).take(3) {
                        let mut t = [0u8; 20];
                        t.copy_from_slice(v);
                        pin_verify_event(&mut tr, *pin, seed, &ss, &cs, &t);
                    }
                }
                let mut h4 = h;
                for x in h4.iter_mut().skip(16) { *x = !*x; }
                pin_verify_event(&mut tr, *pin, seed, &ss, &cs, &h4);
                // after the refusals above the right hash is accepted as before
                pin_verify_event(&mut tr, *pin, seed, &ss, &cs, &h);
                // right hash, wrong pin / seed / salts
                pin_verify_event(&mut tr, pin.wrapping_add(1), seed, &ss, &cs, &h);
                pin_verify_event(&mut tr, *pin, seed.wrapping_add(1), &ss, &cs, &h);
                pin_verify_event(&mut tr, *pin, seed, &cs, &ss, &h);
                // the hash that belongs to a RELATED seed (bytes swapped, rotated, complemented, bits reversed), to the
                // PIN's digits reversed, to the salts each reversed - presented under the real values
                if k % 4 == 0 || thorough {
                    for f in [u32::swap_bytes as fn(u32) -> u32, |x| x.rotate_left(8), |x| x.rotate_left(16), |x| !x, u32::reverse_bits] {
                        if f(seed) != seed {
                            if let Some(h2) = pin_event(&mut tr, *pin, f(seed), &ss, &cs) {
                                pin_verify_event(&mut tr, *pin, seed, &ss, &cs, &h2);
                            }
                        }
                    }
                    let rev: u32 = pin.to_string().chars().rev().collect::<String>().parse().unwrap_or(*pin);
                    if rev != *pin {
                        if let Some(h2) = pin_event(&mut tr, rev, seed, &ss, &cs) {
                            pin_verify_event(&mut tr, *pin, seed, &ss, &cs, &h2);
                        }
                    }
                    // after all those refusals the right hash is still right
                    pin_verify_event(&mut tr, *pin, seed, &ss, &cs, &h);
                    let (mut rs, mut rc) = (ss, cs);
                    rs.reverse();
                    rc.reverse();
                    if let Some(h2) = pin_event(&mut tr, *pin, seed, &rs, &rc) {
                        if rs != ss || rc != cs {
                            pin_verify_event(&mut tr, *pin, seed, &ss, &cs, &h2);
                        }
                    }
                }
            }
            None => {
                // invalid PINs never verify, whatever is presented - including the hashes a client would get by hashing
                // the short PIN anyway, padded with leading zeros to four or to ten key presses (computed here for the
                // digit sequences; the specification says: refused)
                let digits: Vec<u8> = pin.to_string().bytes().map(|c| c - b'0').collect();
                for want in [digits.len(), 4, 10] {
                    if want < digits.len() || (*pin == 0 && want == digits.len()) { continue; }
                    let mut d = vec![0u8; want - digits.len()];
                    d.extend_from_slice(&digits);
                    // the keypad layout of this seed
                    let mut grid: Vec<u8> = (0..10).collect();
                    let mut remapped = vec![];
                    let mut sd = seed;
                    for i in (1..=10u32).rev() {
                        let r = (sd % i) as usize;
                        sd /= i;
                        remapped.push(grid.remove(r));
                    }
                    let keys: Vec<u8> = d.iter().map(|x| remapped.iter().position(|g| g == x).unwrap() as u8 + 0x30).collect();
                    let inner: [u8; 20] = Sha1::new().chain_update(ss).chain_update(&keys).finalize().into();
                    let outer: [u8; 20] = Sha1::new().chain_update(cs).chain_update(inner).finalize().into();
                    pin_verify_event(&mut tr, *pin, seed, &ss, &cs, &outer);
                }
                pin_verify_event(&mut tr, *pin, seed, &ss, &cs, &[0u8; 20]);
                let mut junk = [0u8; 20];
                rng2.fill_bytes(&mut junk);
                pin_verify_event(&mut tr, *pin, seed, &ss, &cs, &junk);
            }
        }
    }
    // layout observed through the hash of the all-distinct-digits PIN, per seed
    let (ss, cs) = ([7u8; 16], [9u8; 16]);
    for s in &seeds {
        pin_event(&mut tr, 1023456789, *s, &ss, &cs);
    }
    // the functions are pure: sequences of related seeds (quotients and residues of the previous seed by 10!, 9!, 10;
    // the previous seed again; 0) must each give the specification's hash whatever was asked before
    for noisy in [false, true] {
    tr.reset("pin-sequences");
    set_noisy(noisy);   // second pass: unrelated calls into other modules between the recorded ones
        let mut firsts: Vec<u32> = vec![0, 1, 5, 3628799, 3628800, 3628801, 7257605, 18_144_001, 362_880, 1_000_000, 4_294_967_295, 4_293_870_400];
        for _ in 0..(if thorough { 200 } else { 12 }) {
            firsts.push(rng2.gen());
        }
        for a in firsts {
            for c in [a / 3_628_800, a % 3_628_800, a / 362_880, a % 362_880, a / 10, 0, a.wrapping_mul(3_628_800), a] {
                pin_event(&mut tr, 1023456789, a, &ss, &cs);
                if let Some(h) = pin_event(&mut tr, 1023456789, c, &ss, &cs) {
                    pin_verify_event(&mut tr, 1023456789, c, &ss, &cs, &h);
                }
            }
        }
        set_noisy(false);
    }
    // block digests over seed ranges (residues modulo 10! exhaustively in thorough) and wrap-around seeds
    let blocks: Vec<u32> = if thorough { (0..886).collect() } else { vec![0, 1, 9, 443, 885] };
    for blk in blocks {
        tr.reset("pin-sweep");
        for offset in [0u32, 3628800 * 1183] {
            // offset 0: the residues themselves; offset 1183*10!: the same residues near the top of u32
            let mut hsh = Sha1::new();
            let from = blk * 4096;
            let to = (from + 4095).min(3628799);
            for sd in from..=to {
                let Some(seed) = sd.checked_add(offset) else { continue };
                if let Ok(Some(h)) = guard(|| wow_srp::pin::calculate_hash(1023456789, seed, &ss, &cs)) {
                    hsh.update(h);
                }
            }
            let dg: [u8; 20] = hsh.finalize().into();
            tr.ev(json!({"ev": "PinSweep", "from": from, "to": to, "offset": u32le(offset), "digest": b(&dg)}));
            if !thorough && offset == 0 && blk > 1 {
                break;
            }
        }
    }
    tr.finish()
}

// ------------------------------------------------------------------------------- integrity
fn split_random(r: &mut StdRng, data: &[u8], parts: usize) -> Vec<Vec<u8>> {
    let mut cuts: Vec<usize> = (0..parts - 1).map(|_| r.gen_range(0..=data.len())).collect();
    cuts.sort();
    let mut out = vec![];
    let mut prev = 0;
    for c in cuts {
        out.push(data[prev..c].to_vec());
        prev = c;
    }
    out.push(data[prev..].to_vec());
    out
}

fn integ_event(tr: &mut Tr, f: &str, files: &[Vec<u8>], salt: &[u8; 16], key: &[u8; 32]) {
    maybe_noise();
    let r = guard(|| match f {
        "windows" => wow_srp::integrity::login_integrity_check_windows(&files[0], &files[1], &files[2], &files[3], &files[4], salt, key),
        "mac" => wow_srp::integrity::login_integrity_check_mac(&files[0], &files[1], &files[2], &files[3], &files[4], salt, key),
        _ => wow_srp::integrity::login_integrity_check_generic(&files[0], salt, key),
    });
    let res = match r {
        Ok(h) => json!({"kind": "ok", "hash": b(&h)}),
        Err(m) => panic_res(&m),
    };
    let fj: Vec<Value> = files.iter().map(|x| b(x)).collect();
    tr.ev(json!({"ev": "Integrity", "fn": f, "files": fj, "salt": b(salt), "key": b(key), "res": res}));
}

pub fn run_integrity(args: &Args) -> (u64, u64) {
    let mut tr = Tr::create(&args.out);
    let mut rng = StdRng::seed_from_u64(args.seed);
    let thorough = args.tier == "thorough";
    tr.reset("integrity");
    let mut salt = [0u8; 16];
    let mut key = [0u8; 32];
    rng.fill_bytes(&mut salt);
    rng.fill_bytes(&mut key);
    // TLC-generated distributions of a short byte string over five arguments
    if let Some(p) = &args.scen {
        for s in read_ndjson(p) {
            let files: Vec<Vec<u8>> = s["files"].as_array().unwrap().iter().map(jbytes).collect();
            for f in ["windows", "mac"] {
                integ_event(&mut tr, f, &files, &salt, &key);
            }
            let all: Vec<u8> = files.concat();
            integ_event(&mut tr, "generic", &[all], &salt, &key);
        }
    }
    // random files of interesting lengths, random splits, sensitivity to every input
    let lens: Vec<usize> = if thorough { vec![0, 1, 55, 56, 63, 64, 65, 119, 120, 128, 4095, 4096, 4097, 100_000] } else { vec![0, 1, 63, 64, 65, 128, 4096] };
    for (k, n) in lens.iter().enumerate() {
        let mut data = vec![0u8; *n];
        rng.fill_bytes(&mut data);
        for _ in 0..(if thorough { 6 } else { 2 }) {
            let files = split_random(&mut rng, &data, 5);
            integ_event(&mut tr, "windows", &files, &salt, &key);
            integ_event(&mut tr, "mac", &files, &salt, &key);
        }
        integ_event(&mut tr, "generic", &[data.clone()], &salt, &key);
        if *n > 0 && *n <= 4096 {
            // one-bit change in each file argument, the salt and the key
            let files = split_random(&mut rng, &data, 5);
            for fi in 0..5 {
                if files[fi].is_empty() {
                    continue;
                }
                let mut f2 = files.clone();
                let pos = rng.gen_range(0..f2[fi].len());
                f2[fi][pos] ^= 1 << (k % 8);
                integ_event(&mut tr, if fi % 2 == 0 { "windows" } else { "mac" }, &f2, &salt, &key);
            }
            for bit in (0..128).step_by(if thorough { 1 } else { 17 }) {
                let mut s2 = salt;
                s2[bit / 8] ^= 1 << (bit % 8);
                integ_event(&mut tr, "windows", &files, &s2, &key);
            }
            for bit in (0..256).step_by(if thorough { 1 } else { 31 }) {
                let mut k2 = key;
                k2[bit / 8] ^= 1 << (bit % 8);
                integ_event(&mut tr, "mac", &files, &salt, &k2);
            }
            // argument order matters: swapping two different files changes the concatenation
            let mut f3 = files.clone();
            f3.swap(0, 4);
            integ_event(&mut tr, "windows", &f3, &salt, &key);
        }
    }
    // keys and salts with zero bytes at either end, all-zero and all-0xFF values (every function must hash all 32 / 16 bytes)
    let mut data = vec![0u8; 100];
    rng.fill_bytes(&mut data);
    // the client public key is 32 opaque bytes here: values that are NOT valid public keys (0, N, 2N mod 2^256) and their
    // neighbours are hashed as they are
    {
        let n_le: [u8; 32] = wow_srp::LARGE_SAFE_PRIME_LITTLE_ENDIAN;
        let mut specials: Vec<[u8; 32]> = vec![n_le, [0u8; 32]];
        let mut t = n_le; t[0] = t[0].wrapping_add(1); specials.push(t);
        let mut t = n_le; t[0] = t[0].wrapping_sub(1); specials.push(t);
        let mut t = n_le; t.reverse(); specials.push(t);
        let mut two_n = [0u8; 32];
        let mut carry = 0u16;
        for i in 0..32 { let v = (n_le[i] as u16) * 2 + carry; two_n[i] = v as u8; carry = v >> 8; }
        specials.push(two_n);
        let mut t = [0u8; 32]; t[0] = 1; specials.push(t);
        for k2 in specials {
            let files = split_random(&mut rng, &data, 5);
            integ_event(&mut tr, "windows", &files, &salt, &k2);
            integ_event(&mut tr, "mac", &files, &salt, &k2);
            integ_event(&mut tr, "generic", &[data.clone()], &salt, &k2);
        }
    }
    for k in 0..13usize {
        let mut k2 = key;
        let mut s2 = salt;
        match k {
            0 => k2[31] = 0,
            1 => { k2[31] = 0; k2[30] = 0; }
            2 => k2[0] = 0,
            3 => k2 = [0u8; 32],
            4 => k2 = [0xff; 32],
            5 => { k2 = [0u8; 32]; k2[0] = 1; }
            6 => s2[15] = 0,
            7 => s2[0] = 0,
            8 => s2 = [0u8; 16],
            9 => { s2 = [0u8; 16]; k2 = [0u8; 32]; }
            10 => { k2[31] = 0x80; s2[0] = 0x36; }
            11 => { s2 = [0x5c; 16]; }
            _ => { k2[16] = 0; s2[8] = 0; }
        }
        let files = split_random(&mut rng, &data, 5);
        integ_event(&mut tr, "windows", &files, &s2, &k2);
        integ_event(&mut tr, "mac", &files, &s2, &k2);
        integ_event(&mut tr, "generic", &[data.clone()], &s2, &k2);
    }
    // after a check over more than 64 MiB (its own result is not recorded - the data cannot be shipped to TLC) the next,
    // ordinary checks on this thread are what they always are
    {
        tr.reset("integrity-after-huge");
        let huge = vec![0x5Au8; 70 << 20];
        let empty: Vec<u8> = vec![];
        let _ = guard(|| wow_srp::integrity::login_integrity_check_windows(&huge, &empty, &empty, &empty, &empty, &salt, &key));
        let small: Vec<Vec<u8>> = (0..5).map(|i| vec![i as u8 + 1; 30 + i]).collect();
        integ_event(&mut tr, "windows", &small, &salt, &key);
        integ_event(&mut tr, "mac", &small, &salt, &key);
        let _ = guard(|| wow_srp::integrity::login_integrity_check_mac(&empty, &huge, &empty, &empty, &empty, &salt, &key));
        integ_event(&mut tr, "mac", &small, &salt, &key);
        integ_event(&mut tr, "windows", &small, &salt, &key);
        let _ = guard(|| wow_srp::integrity::login_integrity_check_generic(&huge, &salt, &key));
        integ_event(&mut tr, "generic", &[small.concat()], &salt, &key);
        integ_event(&mut tr, "windows", &small, &salt, &key);
    }
    // a file argument that ENDS exactly on a multiple of a block size (4 KiB steps up to 64 KiB, 128 KiB in thorough) after
    // starting off it, another that starts exactly there, an empty one on the boundary: every byte is hashed once
    {
        tr.reset("integrity-block-boundaries");
        let top = if thorough { 32usize } else { 16 };
        let mut big = vec![0u8; 4096 * top + 5000];
        rng.fill_bytes(&mut big);
        for k in 1..=top {
            let bnd = 4096 * k;
            let r = [1000usize, 1, 4095, 20000 % bnd][k % 4].min(bnd - 1).max(1);
            let files: Vec<Vec<u8>> = vec![big[..r].to_vec(), big[r..bnd].to_vec(), vec![], big[bnd..bnd + 7].to_vec(), big[bnd + 7..bnd + 351].to_vec()];
            let f = if k % 2 == 0 { "windows" } else { "mac" };
            integ_event(&mut tr, f, &files, &salt, &key);
            if k % 4 == 1 {
                integ_event(&mut tr, "generic", &[big[..bnd + 351].to_vec()], &salt, &key);
                let files2: Vec<Vec<u8>> = vec![big[..bnd].to_vec(), big[bnd..bnd + 1].to_vec(), big[bnd + 1..(2 * bnd).min(big.len())].to_vec(), vec![], vec![9]];
                integ_event(&mut tr, if k % 8 == 1 { "windows" } else { "mac" }, &files2, &salt, &key);
            }
        }
    }
    // file contents are opaque bytes: byte-order marks, line endings, NULs, executable / archive signatures and
    // padding at the START or the END of any single argument are hashed like every other byte
    {
        tr.reset("integrity-magic");
        set_noisy(true);     // unrelated calls into other modules between the recorded ones (off again below)
        let magics: Vec<Vec<u8>> = vec![
            vec![0xEF, 0xBB, 0xBF], vec![0xFE, 0xFF], vec![0xFF, 0xFE], vec![0xFF, 0xFE, 0, 0], vec![0], vec![0, 0, 0, 0], vec![0x0D, 0x0A], vec![0x0A],
            b"MZ".to_vec(), vec![0x7F, b'E', b'L', b'F'], b"<?xml".to_vec(), b"PK\x03\x04".to_vec(), b"#!".to_vec(), b" ".to_vec(), vec![0x1A], vec![0xCA, 0xFE, 0xBA, 0xBE],
            vec![0x80], vec![0xFF],
        ];
        let body: Vec<Vec<u8>> = (0..5).map(|i| (0..(20 + 3 * i)).map(|j| (j * 7 + i * 31 + 1) as u8).collect()).collect();
        for (mi, m) in magics.iter().enumerate() {
            for arg in 0..5usize {
                if !thorough && (mi + arg) % 2 == 1 && mi > 2 {
                    continue;
                }
                let mut pre = body.clone();
                let mut v = m.clone();
                v.extend_from_slice(&body[arg]);
                pre[arg] = v;
                let mut post = body.clone();
                post[arg].extend_from_slice(m);
                let mut only = body.clone();
                only[arg] = m.clone();
                for files in [&pre, &post, &only] {
                    integ_event(&mut tr, "windows", files, &salt, &key);
                    integ_event(&mut tr, "mac", files, &salt, &key);
                }
                if arg == 0 {
                    integ_event(&mut tr, "generic", &[pre.concat()], &salt, &key);
                    integ_event(&mut tr, "generic", &[pre[0].clone()], &salt, &key);
                }
            }
        }
    }
    // the functions are pure: the same buffers changed IN PLACE and checked again (same salt and key), a result
    // asked for twice, buffers of equal length at the same address - nothing may be remembered from an earlier call
    {
        tr.reset("integrity-inplace");
        set_noisy(false);
        let mut one = vec![vec![0u8; 300]];
        rng.fill_bytes(&mut one[0]);
        let mut five: Vec<Vec<u8>> = (0..5).map(|i| vec![i as u8 + 1; 40 + i]).collect();
        for round in 0..(if thorough { 40 } else { 8 }) {
            integ_event(&mut tr, "generic", &one, &salt, &key);
            integ_event(&mut tr, "generic", &one, &salt, &key);
            integ_event(&mut tr, "windows", &five, &salt, &key);
            integ_event(&mut tr, "mac", &five, &salt, &key);
            let pos = (round * 37) % one[0].len();
            one[0][pos] ^= 1 << (round % 8);
            let fi = round % 5;
            let fl = five[fi].len();
            five[fi][(round * 11) % fl] ^= 0x80;
            if round % 4 == 3 {
                // a new allocation of the same length, most likely at the address just freed
                let n = one[0].len();
                one = vec![vec![0u8; n]];
                rng.fill_bytes(&mut one[0]);
            }
        }
    }
    set_noisy(false);
    for _ in 0..(if thorough { 200 } else { 20 }) {
        let mut s = [0u8; 16];
        rng.fill_bytes(&mut s);
        let r = guard(|| wow_srp::integrity::reconnect_integrity_check(&s));
        let res = match r {
            Ok(h) => json!({"kind": "ok", "hash": b(&h)}),
            Err(m) => panic_res(&m),
        };
        tr.ev(json!({"ev": "IntegrityReconnect", "salt": b(&s), "res": res}));
    }
    tr.finish()
}

// ------------------------------------------------------------------------------- matrix card
use wow_srp::matrix_card::{verify_matrix_card_hash, MatrixCard, MatrixCardVerifier};

fn card_geometry_events(tr: &mut Tr, rng: &mut StdRng, d: u8, h: u8, w: u8, all_cells: bool) -> Option<(MatrixCard, Vec<u8>)> {
    let cells = h as usize * w as usize;
    // pairwise distinct cell contents where the digit count allows, digits 0..9
    let mut data = vec![0u8; cells * d as usize];
    for c in 0..cells {
        let mut v = c;
        for k in (0..d as usize).rev() {
            data[c * d as usize + k] = (v % 10) as u8;
            v /= 10;
        }
        if d == 1 {
            data[c] = rng.gen_range(0..10);
        }
    }
    // from_data accepts exactly digit_count * height * width digits
    let expect = MatrixCard::get_matrix_card_size(d, h, w);
    let mut short = data.clone();
    short.pop();
    let mut long = data.clone();
    long.push(1);
    tr.ev(json!({"ev": "CardSize", "d": d, "h": h, "w": w, "size": expect,
                 "acceptsExact": MatrixCard::from_data(d, h, w, data.clone()).is_some(),
                 "acceptsShort": MatrixCard::from_data(d, h, w, short).is_some(),
                 "acceptsLong": MatrixCard::from_data(d, h, w, long).is_some(),
                 "newLen": MatrixCard::new(d, h, w).data().len()}));
    let card = MatrixCard::from_data(d, h, w, data.clone())?;
    let printed: Vec<String> = card.to_printer().collect();
    // the printer is an Iterator: every way of walking it yields the cells in order (skip, step_by, nth followed by
    // the rest, count, last, size_hint), each on a fresh printer
    {
        let digits = |s: &String| -> Value { b(&s.bytes().map(|c| c.wrapping_sub(b'0')).collect::<Vec<u8>>()) };
        let n = printed.len();
        let ks: Vec<usize> = vec![0, 1, 2, n / 2, n.saturating_sub(1), n, n + 1];
        for (i, k) in ks.iter().enumerate() {
            let k = *k;
            let r = guard(|| {
                // (every walk is cut off a little beyond the number of cells: a printer that does not advance must not
                // run away with the harness)
                let cap = n + 3;
                let a: Vec<String> = card.to_printer().skip(k).take(cap).collect();
                let st: Vec<String> = card.to_printer().step_by(k.max(1)).take(cap).collect();
                let mut it = card.to_printer();
                let first = it.nth(k);
                let mut rest: Vec<String> = first.into_iter().collect();
                rest.extend(it.take(cap));
                let mut it2 = card.to_printer();
                let _ = it2.next();
                let hint = it2.size_hint();
                (a, st, rest, card.to_printer().take(cap).count(), card.to_printer().take(cap).last(), hint)
            });
            match r {
                Ok((a, st, rest, count, last, hint)) => tr.ev(json!({"ev": "CardPrint", "d": d, "h": h, "w": w, "data": b(&data), "k": k,
                    "skip": a.iter().map(digits).collect::<Vec<Value>>(), "step": st.iter().map(digits).collect::<Vec<Value>>(),
                    "nth": rest.iter().map(digits).collect::<Vec<Value>>(), "count": count,
                    "last": last.iter().map(digits).collect::<Vec<Value>>(),
                    "hintLo": hint.0, "hintHi": hint.1.map(|x| x as i64).unwrap_or(-1), "res": {"kind": "ok"}})),
                Err(m) => tr.ev(json!({"ev": "CardPrint", "d": d, "h": h, "w": w, "data": b(&data), "k": k, "res": panic_res(&m)})),
            }
            if !all_cells && i >= 3 {
                break;
            }
        }
    }
    let coords: Vec<(u8, u8)> = if all_cells {
        (0..h).flat_map(|y| (0..w).map(move |x| (x, y))).collect()
    } else {
        let mut v = vec![(0, 0), (w - 1, 0), (0, h - 1), (w - 1, h - 1)];
        for _ in 0..6 {
            v.push((rng.gen_range(0..w), rng.gen_range(0..h)));
        }
        v
    };
    for (x, y) in coords {
        let r = guard(|| card.get_number_at_coordinates(x, y).to_vec());
        let idx = y as usize * w as usize + x as usize;
        let pr: Vec<u8> = printed.get(idx).map(|s| s.bytes().map(|c| c - b'0').collect()).unwrap_or_default();
        let res = match r {
            Ok(v) => json!({"kind": "ok", "cell": b(&v)}),
            Err(m) => panic_res(&m),
        };
        tr.ev(json!({"ev": "CardCell", "d": d, "h": h, "w": w, "data": b(&data), "x": x, "y": y, "res": res,
                     "printedAt": b(&pr), "printedCount": printed.len(), "acc": {"d": card.digit_count(), "h": card.height(), "w": card.width()}}));
    }
    Some((card, data))
}

/// get_matrix_coordinates for a list of rounds on one verifier configuration: one event
fn coord_events(tr: &mut Tr, count: u8, h: u8, seed: u64, w: u8, key: &[u8; 40], rounds: &[u8]) -> Vec<Option<(u8, u8)>> {
    maybe_noise();
    let mut out = vec![];
    let mut res = vec![];
    for round in rounds {
        let r = guard(|| {
            let mut v = MatrixCardVerifier::new(count, h, seed, w, key);
            v.get_matrix_coordinates(*round)
        });
        res.push(match &r {
            Ok(Some((x, y))) => json!({"kind": "some", "x": x, "y": y}),
            Ok(None) => json!({"kind": "none"}),
            Err(m) => panic_res(m),
        });
        out.push(r.ok().flatten());
    }
    tr.ev(json!({"ev": "CardCoord", "count": count, "h": h, "w": w, "seed": u64le(seed), "rounds": rounds, "res": res}));
    out
}

fn proof_of(count: u8, h: u8, seed: u64, w: u8, key: &[u8; 40], entered: &[u8]) -> Result<[u8; 20], String> {
    guard(|| {
        let mut v = MatrixCardVerifier::new(count, h, seed, w, key);
        for dgt in entered {
            v.enter_value(*dgt);
        }
        v.into_proof()
    })
}

pub fn run_matrix(args: &Args) -> (u64, u64) {
    let mut tr = Tr::create(&args.out);
    let mut rng = StdRng::seed_from_u64(args.seed);
    let thorough = args.tier == "thorough";
    tr.reset("matrix");
    let mut geoms: Vec<(u8, u8)> = vec![];
    for w in 1..=255u16 {
        for h in 1..=255u16 {
            if w * h <= 255 {
                let small = w <= 6 && h <= 6;
                let boundary = w * h >= 250 || w == 1 || h == 1 || (w == 8 && h == 10) || (w == 10 && h == 8);
                if thorough || small || (boundary && (w + h) % 7 == 0) {
                    geoms.push((w as u8, h as u8));
                }
            }
        }
    }
    let seeds: [u64; 8] = [0, 1, u64::MAX, 14574472801782155463, 0x8000_0000_0000_0000, 0xFFFF_FFFF, 0xABCD_EF01_0000_0000, 0x1_0000_0000];
    for (gi, (w, h)) in geoms.iter().enumerate() {
        if gi % 8 == 7 {
            tr.reset("matrix");
        }
        set_noisy(gi % 2 == 1);     // every other geometry with unrelated calls into other modules in between
        let cells = *w as usize * *h as usize;
        let d: u8 = [1u8, 2, 3, 4][gi % 4];
        let Some((card, data)) = card_geometry_events(&mut tr, &mut rng, d, *h, *w, thorough || cells <= 36) else { continue };
        let mut key = [0u8; 40];
        rng.fill_bytes(&mut key);
        let counts: Vec<u8> = if cells <= 4 || thorough && cells <= 12 { (1..=cells as u8).collect() } else { vec![1, 2, 3, (cells as u8).min(10), cells as u8] };
        for (ci, count) in counts.iter().enumerate() {
            if *count as usize > cells || *count == 0 {
                continue;
            }
            let seed = if (gi + ci) % 2 == 0 { seeds[(gi + ci) % seeds.len()] } else { rng.gen() };
            // challenged coordinates for rounds 0..count-1, plus rounds outside the range
            let mut entered: Vec<u8> = vec![];
            let mut rounds: Vec<u8> = (0..*count).collect();
            rounds.extend_from_slice(&[*count, count.saturating_add(1), 255]);
            if gi % 10 == 0 && ci == 0 {
                rounds = (0..=255).collect();
            }
            let got = coord_events(&mut tr, *count, *h, seed, *w, &key, &rounds);
            for (round, g) in rounds.iter().zip(got.iter()) {
                let round = *round;
                if let Some((x, y)) = *g {
                    if round < *count {
                        // the user reads the printed card: row y, column x
                        let idx = (y as usize * *w as usize + x as usize) * d as usize;
                        if idx + d as usize <= data.len() {
                            entered.extend_from_slice(&data[idx..idx + d as usize]);
                        }
                    }
                }
            }
            // proof of a client that entered the printed digits; the server-side check
            let pr = proof_of(*count, *h, seed, *w, &key, &entered);
            let res = match &pr {
                Ok(p) => json!({"kind": "ok", "proof": b(p)}),
                Err(m) => panic_res(m),
            };
            tr.ev(json!({"ev": "CardProof", "count": count, "h": h, "w": w, "seed": u64le(seed), "K": b(&key), "entered": b(&entered), "res": res}));
            if let Ok(p) = pr {
                let mut verify = |tr: &mut Tr, proof: &[u8; 20], note: &str| {
                    let r = guard(|| verify_matrix_card_hash(&card, *count, seed, &key, proof));
                    let res = match r {
                        Ok(v) => json!({"kind": "bool", "ok": v}),
                        Err(m) => panic_res(&m),
                    };
                    tr.ev(json!({"ev": "CardVerify", "d": d, "h": h, "w": w, "data": b(&data), "count": count, "seed": u64le(seed), "K": b(&key),
                                 "proof": b(proof), "note": note, "res": res}));
                };
                verify(&mut tr, &p, "printed digits");
                // any other digit sequence is rejected: single-digit changes, permuted order
                for pos in 0..entered.len().min(if thorough { 40 } else { 3 }) {
                    let mut e2 = entered.clone();
                    e2[pos] = (e2[pos] + 1 + (pos as u8 % 8)) % 10;
                    if let Ok(p2) = proof_of(*count, *h, seed, *w, &key, &e2) {
                        verify(&mut tr, &p2, "one digit changed");
                    }
                }
                if entered.len() >= 2 && entered[0] != entered[entered.len() - 1] {
                    let mut e2 = entered.clone();
                    let last = e2.len() - 1;
                    e2.swap(0, last);
                    if let Ok(p2) = proof_of(*count, *h, seed, *w, &key, &e2) {
                        verify(&mut tr, &p2, "order permuted");
                    }
                }
                let mut pf = p;
                pf[gi % 20] ^= 1 << (ci % 8);
                verify(&mut tr, &pf, "proof bit flipped");
            }
        }
    }
    // the coordinate sequence is a pure function of (count, height, width, seed): related seeds one after the other
    // (quotients and residues by the number of cells, the previous seed again, 0, small seeds with several rounds),
    // and the same seed under different geometries
    {
        // a verifier overwritten with clone_from by one of ANOTHER geometry (and seed, count): it then answers as the source
        tr.reset("matrix-clone-from");
        {
            let key = [6u8; 40];
            for (i, ((c1, h1, w1, s1), (c2, h2, w2, s2))) in [((2u8, 2u8, 2u8, 5u64), (3u8, 10u8, 8u8, 77u64)), ((3, 10, 8, 1), (2, 2, 2, 9)), ((1, 1, 1, 0), (4, 5, 3, 123456789)),
                                                              ((3, 4, 8, 3), (3, 8, 4, 3)), ((5, 6, 6, 99), (5, 6, 6, 100))].iter().enumerate() {
                let rounds: Vec<u8> = (0..(*c2).min(12)).chain([*c2, 255]).collect();
                let mut res = vec![];
                for round in &rounds {
                    let r = guard(|| {
                        let mut target = MatrixCardVerifier::new(*c1, *h1, *s1, *w1, &key);
                        if i % 2 == 0 { let _ = target.get_matrix_coordinates(0); }
                        let source = MatrixCardVerifier::new(*c2, *h2, *s2, *w2, &key);
                        target.clone_from(&source);
                        target.get_matrix_coordinates(*round)
                    });
                    res.push(match &r {
                        Ok(Some((x, y))) => json!({"kind": "some", "x": x, "y": y}),
                        Ok(None) => json!({"kind": "none"}),
                        Err(m) => panic_res(m),
                    });
                }
                tr.ev(json!({"ev": "CardCoord", "count": c2, "h": h2, "w": w2, "seed": u64le(*s2), "rounds": rounds, "res": res}));
            }
        }
        tr.reset("matrix-sequences");
        set_noisy(false);
        let key = [5u8; 40];
        let mut firsts: Vec<u64> = vec![0, 1, 5, 79, 80, 81, 6399, 6400, 512_000, u64::MAX, 14574472801782155463];
        for _ in 0..(if thorough { 60 } else { 6 }) {
            firsts.push(rng.gen());
        }
        for a in firsts {
            for (w, h, count) in [(8u8, 10u8, 3u8), (10, 8, 3), (2, 2, 4), (1, 5, 2), (8, 10, 80)] {
                let cells = w as u64 * h as u64;
                let rounds: Vec<u8> = (0..count.min(12)).collect();
                for c in [a, a / cells, a % cells, a / (cells * (cells - 1).max(1)), 0, a] {
                    coord_events(&mut tr, count, h, c, w, &key, &rounds);
                }
            }
        }
    }
    tr.finish()
}

// ------------------------------------------------------------------------------- randomness (C15)
fn draws_event(tr: &mut Tr, site: &str, via: &str, obs: Vec<Vec<u8>>, raw: Vec<Vec<u8>>, used: Vec<Vec<u8>>, sites: Vec<String>, ctx: Value) {
    let j = |v: &Vec<Vec<u8>>| Value::Array(v.iter().map(|x| b(x)).collect());
    tr.ev(json!({"ev": "Draws", "site": site, "via": via, "obs": j(&obs), "raw": j(&raw), "used": j(&used), "sites": sites, "ctx": ctx}));
}

pub fn run_rng(args: &Args) -> (u64, u64) {
    use wow_srp::normalized_string::NormalizedString as NS;
    use wow_srp::server::SrpVerifier;
    let mut tr = Tr::create(&args.out);
    let thorough = args.tier == "thorough";
    let n: usize = args.n.map(|x| x as usize).unwrap_or(if thorough { 20000 } else { 2048 });
    let threads = 8usize;
    tr.reset("rng");
    type Batch = (Vec<Vec<u8>>, Vec<Vec<u8>>, Vec<Vec<u8>>, Vec<String>);
    // run `f` n times over 8 threads; f returns the public observable; the hook log is taken per call
    fn batch<F: Fn(usize) -> Vec<u8> + Send + Sync + 'static>(n: usize, threads: usize, f: F) -> Batch {
        let f = std::sync::Arc::new(f);
        let mut hs = vec![];
        for t in 0..threads {
            let f = f.clone();
            hs.push(std::thread::spawn(move || {
                let mut out: Batch = (vec![], vec![], vec![], vec![]);
                let per = n / threads;
                for k in 0..per {
                    clear_hooks();
                    let o = f(t * per + k);
                    out.0.push(o);
                    for d in wow_srp::verif_hooks::take_log() {
                        out.1.push(d.raw);
                        out.2.push(d.used);
                        out.3.push(d.site.to_string());
                    }
                }
                out
            }));
        }
        let mut all: Batch = (vec![], vec![], vec![], vec![]);
        for h in hs {
            let o = h.join().expect("rng thread");
            all.0.extend(o.0);
            all.1.extend(o.1);
            all.2.extend(o.2);
            all.3.extend(o.3);
        }
        all
    }
    let fixed_salt = [3u8; 32];
    let ver = SrpVerifier::from_username_and_password(NS::new("RNG").unwrap(), NS::new("RNG").unwrap());
    let v_bytes = *ver.password_verifier();
    let v_salt = *ver.salt();

    let (o, r, u, s) = batch(n, threads, |_| SrpVerifier::from_username_and_password(NS::new("A").unwrap(), NS::new("B").unwrap()).salt().to_vec());
    draws_event(&mut tr, "Salt", "from_username_and_password", o, r, u, s, json!({}));

    let (o, r, u, s) = batch(n, threads, move |_| {
        SrpVerifier::from_database_values(NS::new("RNG").unwrap(), v_bytes, v_salt).into_proof().server_public_key().to_vec()
    });
    draws_event(&mut tr, "PrivateKey", "into_proof", o, r, u, s, json!({"v": b(&v_bytes)}));

    let mut bfix = [0u8; 32];
    bfix[0] = 5;
    let (o, r, u, s) = batch(n, threads, move |_| {
        let bpub = wow_srp::PublicKey::from_le_bytes(bfix).unwrap();
        wow_srp::client::SrpClientChallenge::new(NS::new("A").unwrap(), NS::new("B").unwrap(), 7, wow_srp::LARGE_SAFE_PRIME_LITTLE_ENDIAN, bpub, fixed_salt)
            .client_public_key()
            .to_vec()
    });
    draws_event(&mut tr, "PrivateKey", "SrpClientChallenge::new", o, r, u, s, json!({}));

    // full logins: the initial reconnect challenge, then refresh after an accepted and after a rejected attempt,
    // and the client's own challenge
    let logins = n.min(if thorough { 4000 } else { 1024 });
    let (o, r, u, s) = batch(logins, threads, |_| {
        let v = SrpVerifier::from_username_and_password(NS::new("A").unwrap(), NS::new("B").unwrap());
        let p = v.into_proof();
        let bpub = wow_srp::PublicKey::from_le_bytes(*p.server_public_key()).unwrap();
        let c = wow_srp::client::SrpClientChallenge::new(NS::new("A").unwrap(), NS::new("B").unwrap(), 7, wow_srp::LARGE_SAFE_PRIME_LITTLE_ENDIAN, bpub, *p.salt());
        let apub = wow_srp::PublicKey::from_le_bytes(*c.client_public_key()).unwrap();
        let (mut srv, m2) = p.into_server(apub, *c.client_proof()).unwrap();
        let cl = c.verify_server_proof(m2).unwrap();
        let mut out = srv.reconnect_challenge_data().to_vec();
        let rv = cl.calculate_reconnect_values(*srv.reconnect_challenge_data());
        out.extend_from_slice(&rv.challenge_data);
        let _ = srv.verify_reconnection_attempt(rv.challenge_data, rv.proof);
        out.extend_from_slice(srv.reconnect_challenge_data());
        let _ = srv.verify_reconnection_attempt([0u8; 16], [0u8; 20]);
        out.extend_from_slice(srv.reconnect_challenge_data());
        out
    });
    draws_event(&mut tr, "Login", "full login + 2 reconnect attempts", o, r, u, s, json!({}));

    // a CLONE of a logged-in server is another server: the challenges it offers after its own attempts are as fresh as
    // the original's (observed: four refreshed challenges of the original and of its clone, per session)
    {
        let sessions = if thorough { 1024 } else { 256 };
        let (o, r, u, s) = batch(sessions, threads, |_| {
            let v = SrpVerifier::from_username_and_password(NS::new("A").unwrap(), NS::new("B").unwrap());
            let p = v.into_proof();
            let bpub = wow_srp::PublicKey::from_le_bytes(*p.server_public_key()).unwrap();
            let c = wow_srp::client::SrpClientChallenge::new(NS::new("A").unwrap(), NS::new("B").unwrap(), 7, wow_srp::LARGE_SAFE_PRIME_LITTLE_ENDIAN, bpub, *p.salt());
            let apub = wow_srp::PublicKey::from_le_bytes(*c.client_public_key()).unwrap();
            let (mut srv, _m2) = p.into_server(apub, *c.client_proof()).unwrap();
            let mut twin = srv.clone();
            let mut out = vec![];
            for _ in 0..4 {
                let _ = srv.verify_reconnection_attempt([1u8; 16], [2u8; 20]);
                out.extend_from_slice(srv.reconnect_challenge_data());
                let _ = twin.verify_reconnection_attempt([1u8; 16], [2u8; 20]);
                out.extend_from_slice(twin.reconnect_challenge_data());
            }
            out
        });
        // one observable per challenge
        let mut each: Vec<Vec<u8>> = vec![];
        for v in &o { for ch in v.chunks(16) { each.push(ch.to_vec()); } }
        let _ = (r, u, s);
        draws_event(&mut tr, "CloneRefresh", "SrpServer::clone + verify_reconnection_attempt", each, vec![], vec![], vec![], json!({}));
    }
    // attempts whose client data ECHO the challenge on offer, or are all zero, refresh the challenge like any other attempt
    {
        let sessions = if thorough { 1024 } else { 256 };
        let (o, _r, _u, _s) = batch(sessions, threads, |_| {
            let v = SrpVerifier::from_username_and_password(NS::new("A").unwrap(), NS::new("B").unwrap());
            let p = v.into_proof();
            let bpub = wow_srp::PublicKey::from_le_bytes(*p.server_public_key()).unwrap();
            let c = wow_srp::client::SrpClientChallenge::new(NS::new("A").unwrap(), NS::new("B").unwrap(), 7, wow_srp::LARGE_SAFE_PRIME_LITTLE_ENDIAN, bpub, *p.salt());
            let apub = wow_srp::PublicKey::from_le_bytes(*c.client_public_key()).unwrap();
            let (mut srv, _m2) = p.into_server(apub, *c.client_proof()).unwrap();
            let mut out = srv.reconnect_challenge_data().to_vec();
            let ch = *srv.reconnect_challenge_data();
            let _ = srv.verify_reconnection_attempt(ch, [0u8; 20]);
            out.extend_from_slice(srv.reconnect_challenge_data());
            let ch = *srv.reconnect_challenge_data();
            let _ = srv.verify_reconnection_attempt(ch, [0xA5u8; 20]);
            out.extend_from_slice(srv.reconnect_challenge_data());
            let _ = srv.verify_reconnection_attempt([0u8; 16], [0u8; 20]);
            out.extend_from_slice(srv.reconnect_challenge_data());
            out
        });
        let mut each: Vec<Vec<u8>> = vec![];
        for v in &o { for ch in v.chunks(16) { each.push(ch.to_vec()); } }
        draws_event(&mut tr, "CloneRefresh", "attempts echoing the challenge", each, vec![], vec![], vec![], json!({}));
    }
    for (exp, site) in [("vanilla", "VanillaSeed"), ("tbc", "TbcSeed"), ("wrath", "WrathSeed")] {
        for via in ["new", "default"] {
            let (o, r, u, s) = batch(n, threads, move |_| {
                let v = match (exp, via) {
                    ("vanilla", "new") => wow_srp::vanilla_header::ProofSeed::new().seed(),
                    ("vanilla", _) => wow_srp::vanilla_header::ProofSeed::default().seed(),
                    ("tbc", "new") => wow_srp::tbc_header::ProofSeed::new().seed(),
                    ("tbc", _) => wow_srp::tbc_header::ProofSeed::default().seed(),
                    (_, "new") => wow_srp::wrath_header::ProofSeed::new().seed(),
                    _ => wow_srp::wrath_header::ProofSeed::default().seed(),
                };
                v.to_le_bytes().to_vec()
            });
            draws_event(&mut tr, site, via, o, r, u, s, json!({}));
        }
    }
    let (o, r, u, s) = batch(n, threads, |_| wow_srp::integrity::get_salt_value().to_vec());
    draws_event(&mut tr, "IntegritySalt", "get_salt_value", o, r, u, s, json!({}));
    let (o, r, u, s) = batch(n, threads, |_| wow_srp::pin::get_pin_salt().to_vec());
    draws_event(&mut tr, "PinSalt", "get_pin_salt", o, r, u, s, json!({}));
    let (o, r, u, s) = batch(n, threads, |_| wow_srp::pin::get_pin_grid_seed().to_le_bytes().to_vec());
    draws_event(&mut tr, "PinGridSeed", "get_pin_grid_seed", o, r, u, s, json!({}));
    let (o, r, u, s) = batch(n, threads, |_| wow_srp::matrix_card::get_matrix_card_seed().to_le_bytes().to_vec());
    draws_event(&mut tr, "MatrixSeed", "get_matrix_card_seed", o, r, u, s, json!({}));
    // values drawn one after the other on one thread by DIFFERENT calls in a mixed order (per thread: one stream)
    {
        let streams = if thorough { 24 } else { 4 };
        let per = 320usize;
        let mut hs = vec![];
        for t in 0..streams {
            let seed = args.seed ^ (t as u64) << 16;
            hs.push(std::thread::spawn(move || {
                let mut r = StdRng::seed_from_u64(seed);
                let mut obs: Vec<Vec<u8>> = vec![];
                let mut kinds: Vec<&'static str> = vec![];
                for k in 0..per {
                    // thread 0: seed, salt strictly alternating; thread 1: one seed then runs of salts; others random mixes
                    let pick = match t { 0 => k % 2, 1 => if k % 5 == 0 { 0 } else { 1 }, _ => r.gen_range(0..9) };
                    let (kind, v): (&'static str, Vec<u8>) = match pick {
                        0 => ("PinGridSeed", wow_srp::pin::get_pin_grid_seed().to_le_bytes().to_vec()),
                        1 => ("PinSalt", wow_srp::pin::get_pin_salt().to_vec()),
                        2 => ("IntegritySalt", wow_srp::integrity::get_salt_value().to_vec()),
                        3 => ("MatrixSeed", wow_srp::matrix_card::get_matrix_card_seed().to_le_bytes().to_vec()),
                        4 => ("VanillaSeed", wow_srp::vanilla_header::ProofSeed::new().seed().to_le_bytes().to_vec()),
                        5 => ("TbcSeed", wow_srp::tbc_header::ProofSeed::new().seed().to_le_bytes().to_vec()),
                        6 => ("WrathSeed", wow_srp::wrath_header::ProofSeed::new().seed().to_le_bytes().to_vec()),
                        7 => ("Salt", SrpVerifier::from_username_and_password(NS::new("A").unwrap(), NS::new("B").unwrap()).salt().to_vec()),
                        _ => ("MatrixSeed", wow_srp::matrix_card::get_matrix_card_seed().to_le_bytes().to_vec()),
                    };
                    obs.push(v);
                    kinds.push(kind);
                }
                clear_hooks();
                (obs, kinds)
            }));
        }
        for h in hs {
            let (obs, kinds) = h.join().expect("stream thread");
            let o: Vec<Value> = obs.iter().map(|v| b(v)).collect();
            tr.ev(json!({"ev": "DrawStream", "obs": o, "kinds": kinds}));
        }
    }
    let cards = if thorough { 16000 } else { 2560 };
    let (o, r, u, s) = batch(cards, threads, |_| MatrixCard::new(2, 10, 8).data().to_vec());
    draws_event(&mut tr, "MatrixDigits", "MatrixCard::new(2,10,8)", o, r, u, s, json!({}));
    // other geometries (digit totals that are not multiples of 8, 16, 32): every position against every other
    for (d, h, w) in [(3u8, 7u8, 5u8), (1, 1, 17), (1, 3, 11), (20, 2, 3), (25, 1, 2), (19, 1, 3)] {
        let (o, r, u, s) = batch(if thorough { 1024 } else { 256 }, threads, move |_| MatrixCard::new(d, h, w).data().to_vec());
        draws_event(&mut tr, "MatrixDigits", &format!("MatrixCard::new({},{},{})", d, h, w), o, r, u, s, json!({}));
    }
    tr.finish()
}


/// Corpus search (run once, by hand; its output is committed under corpus/): salts for which x = SHA1(salt | SHA1("U:P")) has an
/// all-zero aligned 32-bit word.  Input selection only - the checks recompute x from the recorded salt with the specification.
pub fn run_xhunt(args: &Args) -> (u64, u64) {
    use std::sync::atomic::{AtomicBool, AtomicU64, Ordering};
    use std::sync::{Arc, Mutex};
    let creds: [(&str, &str); 2] = [("A", "A"), ("GANDALF77", "MELLON!2")];
    let found: Arc<Mutex<Vec<(usize, [u8; 32], usize)>>> = Arc::new(Mutex::new(vec![]));
    let stop = Arc::new(AtomicBool::new(false));
    let tried = Arc::new(AtomicU64::new(0));
    let start = std::time::Instant::now();
    let limit = args.n.unwrap_or(240);
    let mut hs = vec![];
    for t in 0..16u64 {
        let (found, stop, tried) = (found.clone(), stop.clone(), tried.clone());
        let seed = args.seed;
        hs.push(std::thread::spawn(move || {
            let ci = (t % 2) as usize;
            let up = format!("{}:{}", creds[ci].0, creds[ci].1);
            let inner: [u8; 20] = Sha1::new().chain_update(up.as_bytes()).finalize().into();
            let mut salt = [0u8; 32];
            salt[8..16].copy_from_slice(&seed.to_le_bytes());
            salt[16] = t as u8;
            salt[31] = 0x5A;
            let mut ctr: u64 = 0;
            while !stop.load(Ordering::Relaxed) {
                for _ in 0..1_000_000 {
                    ctr += 1;
                    salt[..8].copy_from_slice(&ctr.to_le_bytes());
                    let x: [u8; 20] = Sha1::new().chain_update(salt).chain_update(inner).finalize().into();
                    for w in 0..4usize {
                        if x[4 * w] == 0 && x[4 * w + 1] == 0 && x[4 * w + 2] == 0 && x[4 * w + 3] == 0 && x[4 * w + 4..].iter().any(|b| *b != 0) {
                            found.lock().unwrap().push((ci, salt, w));
                        }
                    }
                }
                tried.fetch_add(1_000_000, Ordering::Relaxed);
                let f = found.lock().unwrap();
                let have: std::collections::HashSet<usize> = f.iter().map(|e| e.2).collect();
                if have.len() == 4 || start.elapsed().as_secs() > limit { stop.store(true, Ordering::Relaxed); }
            }
        }));
    }
    for h in hs { let _ = h.join(); }
    let mut tr = Tr::create(&args.out);
    for (ci, salt, w) in found.lock().unwrap().iter() {
        tr.ev(json!({"user": creds[*ci].0, "pass": creds[*ci].1, "salt": b(salt), "zeroWord": w}));
    }
    eprintln!("xhunt: tried {} salts in {} s", tried.load(Ordering::Relaxed), start.elapsed().as_secs());
    tr.finish()
}
