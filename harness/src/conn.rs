//! A uniform handle over the header-crypto objects of the three expansions (combined object or
//! split halves), plus logging primitives: one public call of wow_srp per event, state read
//! back from the derived Debug output of the half concerned.

use crate::util::*;
use serde_json::{json, Value};
use std::collections::VecDeque;
use std::io::{ErrorKind, Read, Write};
use wow_srp::normalized_string::NormalizedString;
use wow_srp::{tbc_header as tbc, vanilla_header as van, wrath_header as wr};

#[derive(Clone, Debug, PartialEq, Eq)]
pub enum Cr {
    V(van::HeaderCrypto),
    T(tbc::HeaderCrypto),
    WC(wr::ClientCrypto),
    WS(wr::ServerCrypto),
}
#[derive(Clone, Debug, PartialEq, Eq)]
pub enum En {
    V(van::EncrypterHalf),
    T(tbc::EncrypterHalf),
    WC(wr::ClientEncrypterHalf),
    WS(wr::ServerEncrypterHalf),
}
#[derive(Clone, Debug, PartialEq, Eq)]
pub enum De {
    V(van::DecrypterHalf),
    T(tbc::DecrypterHalf),
    WC(wr::ClientDecrypterHalf),
    WS(wr::ServerDecrypterHalf),
}
#[derive(Clone, Debug, PartialEq, Eq)]
pub enum State {
    Whole(Cr),
    Parts(En, De),
    Gone,
}

#[derive(Clone, Debug, PartialEq, Eq)]
pub struct Conn {
    pub st: State,
    pub he: u64,
    pub hd: u64,
    pub exp: &'static str,
    pub role: &'static str,
}

// ------------------------------------------------------------------ Debug parsing
fn die(msg: &str, s: &str) -> ! {
    eprintln!("harness: cannot parse Debug output ({}): {}", msg, &s[..s.len().min(300)]);
    std::process::exit(2)
}
// A field that is not in the Debug output (a private representation may change) is simply not observed: the
// corresponding comparison of the trace specification is skipped, the behavioural comparisons remain.
fn field_num(s: &str, name: &str) -> Option<u64> {
    let pat = format!("{}: ", name);
    let i = s.find(&pat)? + pat.len();
    let rest = &s[i..];
    let end = rest.find(|c: char| !c.is_ascii_digit()).unwrap_or(rest.len());
    rest[..end].parse().ok()
}
fn field_arr(s: &str, name: &str) -> Option<Vec<u8>> {
    let pat = format!("{}: [", name);
    let i = s.find(&pat)? + pat.len();
    let rest = &s[i..];
    let end = rest.find(']')?;
    if rest[..end].trim().is_empty() {
        return Some(vec![]);
    }
    let mut out = vec![];
    for x in rest[..end].split(',') {
        out.push(x.trim().parse().ok()?);
    }
    Some(out)
}
fn put_arr(v: &mut Value, key: &str, a: Option<Vec<u8>>) {
    if let Some(a) = a {
        v[key] = b(&a);
    }
}
fn put_num(v: &mut Value, key: &str, n: Option<u64>) {
    if let Some(n) = n {
        v[key] = Value::from(n);
    }
}
fn stream_state(dbg: &str, keyname: &str) -> Value {
    let mut v = json!({});
    put_arr(&mut v, "key", field_arr(dbg, keyname));
    put_num(&mut v, "i", field_num(dbg, "index"));
    put_num(&mut v, "p", field_num(dbg, "previous_value"));
    v
}
fn rc4_state(dbg: &str) -> Value {
    let mut v = json!({});
    put_arr(&mut v, "S", field_arr(dbg, "state"));
    put_num(&mut v, "i", field_num(dbg, " i"));
    put_num(&mut v, "j", field_num(dbg, " j"));
    v
}

impl En {
    pub fn state(&self) -> Value {
        let d = format!("{:?}", self);
        match self {
            En::V(_) => stream_state(&d, "session_key"),
            En::T(_) => stream_state(&d, "key"),
            En::WC(_) | En::WS(_) => rc4_state(&d),
        }
    }
    pub fn encrypt(&mut self, data: &mut [u8]) {
        match self {
            En::V(h) => h.encrypt(data),
            En::T(h) => h.encrypt(data),
            En::WC(h) => h.encrypt(data),
            En::WS(h) => h.encrypt(data),
        }
    }
}
impl De {
    pub fn state(&self) -> Value {
        let d = format!("{:?}", self);
        match self {
            De::V(_) => stream_state(&d, "session_key"),
            De::T(_) => stream_state(&d, "key"),
            De::WS(_) => rc4_state(&d),
            De::WC(_) => {
                let mut v = rc4_state(&d);
                put_arr(&mut v, "stash", field_arr(&d, ", header"));
                v
            }
        }
    }
    pub fn decrypt(&mut self, data: &mut [u8]) {
        match self {
            De::V(h) => h.decrypt(data),
            De::T(h) => h.decrypt(data),
            De::WC(h) => h.decrypt(data),
            De::WS(h) => h.decrypt(data),
        }
    }
}

// ------------------------------------------------------------------ scripted I/O
#[derive(Clone, Debug)]
pub enum Step {
    Data(Vec<u8>),
    Accept(usize),
    Intr,
    Err(ErrorKind),
}
pub fn kind_name(k: ErrorKind) -> &'static str {
    match k {
        ErrorKind::UnexpectedEof => "UnexpectedEof",
        ErrorKind::ConnectionReset => "ConnectionReset",
        ErrorKind::WouldBlock => "WouldBlock",
        ErrorKind::WriteZero => "WriteZero",
        ErrorKind::Interrupted => "Interrupted",
        ErrorKind::BrokenPipe => "BrokenPipe",
        ErrorKind::TimedOut => "TimedOut",
        ErrorKind::Other => "Other",
        _ => "Unlisted",
    }
}
pub fn kind_from(s: &str) -> ErrorKind {
    match s {
        "UnexpectedEof" => ErrorKind::UnexpectedEof,
        "ConnectionReset" => ErrorKind::ConnectionReset,
        "WouldBlock" => ErrorKind::WouldBlock,
        "BrokenPipe" => ErrorKind::BrokenPipe,
        "TimedOut" => ErrorKind::TimedOut,
        _ => ErrorKind::Other,
    }
}
pub fn steps_json(steps: &[Step]) -> Value {
    Value::Array(
        steps
            .iter()
            .map(|s| match s {
                Step::Data(d) => json!({"t": "data", "b": b(d)}),
                Step::Accept(n) => json!({"t": "accept", "n": n}),
                Step::Intr => json!({"t": "intr"}),
                Step::Err(k) => json!({"t": "err", "kind": kind_name(*k)}),
            })
            .collect(),
    )
}
pub fn steps_from_json(v: &Value) -> Vec<Step> {
    v.as_array()
        .unwrap()
        .iter()
        .map(|s| match s["t"].as_str().unwrap() {
            "data" => Step::Data(jbytes(&s["b"])),
            "accept" => Step::Accept(s["n"].as_u64().unwrap() as usize),
            "intr" => Step::Intr,
            _ => Step::Err(kind_from(s["kind"].as_str().unwrap())),
        })
        .collect()
}
pub struct ScriptReader {
    pub steps: VecDeque<Step>,
}
impl Read for ScriptReader {
    fn read(&mut self, buf: &mut [u8]) -> std::io::Result<usize> {
        match self.steps.pop_front() {
            None => Ok(0),
            Some(Step::Data(d)) => {
                let n = d.len().min(buf.len());
                buf[..n].copy_from_slice(&d[..n]);
                if n < d.len() {
                    self.steps.push_front(Step::Data(d[n..].to_vec()));
                }
                Ok(n)
            }
            Some(Step::Intr) => Err(ErrorKind::Interrupted.into()),
            Some(Step::Err(k)) => Err(k.into()),
            Some(Step::Accept(_)) => Ok(0),
        }
    }
}
pub struct ScriptWriter {
    pub steps: VecDeque<Step>,
    pub delivered: Vec<u8>,
}
impl Write for ScriptWriter {
    fn write(&mut self, buf: &[u8]) -> std::io::Result<usize> {
        match self.steps.pop_front() {
            None => {
                self.delivered.extend_from_slice(buf);
                Ok(buf.len())
            }
            Some(Step::Accept(n)) => {
                let k = n.min(buf.len());
                self.delivered.extend_from_slice(&buf[..k]);
                Ok(k)
            }
            Some(Step::Intr) => Err(ErrorKind::Interrupted.into()),
            Some(Step::Err(k)) => Err(k.into()),
            Some(Step::Data(_)) => Ok(0),
        }
    }
    fn flush(&mut self) -> std::io::Result<()> {
        Ok(())
    }
}

// ------------------------------------------------------------------ the handle
pub struct C {
    pub tr: Tr,
    next: u64,
    /// output of a reference object handling only this direction (C12), attached to the next Call event
    pub ref_out: Option<Vec<u8>>,
    /// header a separate one-direction reference object decodes from the same bytes (attached to the next ReadHdr)
    pub ref_hdr: Option<Value>,
    /// the header the peer sent (C10), attached to the next decode event
    pub sent: Option<(u32, u32)>,
    /// the next decode event is performed on a clone taken in mid-header (C12)
    pub is_clone: bool,
}

pub fn wire_server(exp: &str, size: u32, opcode: u16) -> Vec<u8> {
    if exp == "wrath" && size > 0x7FFF {
        vec![((size >> 16) as u8) | 0x80, (size >> 8) as u8, size as u8, opcode as u8, (opcode >> 8) as u8]
    } else {
        vec![(size >> 8) as u8, size as u8, opcode as u8, (opcode >> 8) as u8]
    }
}
pub fn wire_client(size: u16, opcode: u32) -> Vec<u8> {
    let o = opcode.to_le_bytes();
    vec![(size >> 8) as u8, size as u8, o[0], o[1], o[2], o[3]]
}

pub fn hdr_json_server(size: u32, opcode: u16) -> Value {
    json!({"size": size, "opcode": opcode})
}
pub fn hdr_json_client(size: u16, opcode: u32) -> Value {
    json!({"size": size, "opcode": u32le(opcode)})
}

macro_rules! enc_half {
    ($conn:expr, $via:expr, |$h:ident| $body:expr, $( $pat:ident ),+ ) => {
        match &mut $conn.st {
            State::Whole(c) => match c { $( Cr::$pat(x) => { if $via == "combined" { let $h = x; Some($body) } else { let $h = x.encrypter(); Some($body) } } )+ #[allow(unreachable_patterns)] _ => None },
            State::Parts(e, _) => match e { $( En::$pat($h) => Some($body), )+ #[allow(unreachable_patterns)] _ => None },
            State::Gone => None,
        }
    };
}
macro_rules! dec_half {
    ($conn:expr, $via:expr, |$h:ident| $body:expr, $( $pat:ident ),+ ) => {
        match &mut $conn.st {
            State::Whole(c) => match c { $( Cr::$pat(x) => { if $via == "combined" { let $h = x; Some($body) } else { let $h = x.decrypter(); Some($body) } } )+ #[allow(unreachable_patterns)] _ => None },
            State::Parts(_, d) => match d { $( De::$pat($h) => Some($body), )+ #[allow(unreachable_patterns)] _ => None },
            State::Gone => None,
        }
    };
}

impl Conn {
    // OBSERVERS NEVER TOUCH THE LIVE OBJECT: state and reference clones of a combined object are taken through the
    // accessors of a CLONE of the whole object, so that logging cannot itself be the "first operation" on the object
    // (seeded change C12-m12: lazy set-up on first use, forgotten in one entry point, was hidden by the logging)
    pub fn enc_state(&mut self) -> Value {
        match &mut self.st {
            State::Whole(c) => match &mut c.clone() {
                Cr::V(x) => En::V(x.encrypter().clone()).state(),
                Cr::T(x) => En::T(x.encrypter().clone()).state(),
                Cr::WC(x) => En::WC(x.encrypter().clone()).state(),
                Cr::WS(x) => En::WS(x.encrypter().clone()).state(),
            },
            State::Parts(e, _) => e.state(),
            State::Gone => Value::Null,
        }
    }
    pub fn dec_state(&mut self) -> Value {
        match &mut self.st {
            State::Whole(c) => match &mut c.clone() {
                Cr::V(x) => De::V(x.decrypter().clone()).state(),
                Cr::T(x) => De::T(x.decrypter().clone()).state(),
                Cr::WC(x) => De::WC(x.decrypter().clone()).state(),
                Cr::WS(x) => De::WS(x.decrypter().clone()).state(),
            },
            State::Parts(_, d) => d.state(),
            State::Gone => Value::Null,
        }
    }
    pub fn enc_clone(&mut self) -> Option<En> {
        match &mut self.st {
            State::Whole(c) => Some(match &mut c.clone() {
                Cr::V(x) => En::V(x.encrypter().clone()),
                Cr::T(x) => En::T(x.encrypter().clone()),
                Cr::WC(x) => En::WC(x.encrypter().clone()),
                Cr::WS(x) => En::WS(x.encrypter().clone()),
            }),
            State::Parts(e, _) => Some(e.clone()),
            State::Gone => None,
        }
    }
    pub fn dec_clone(&mut self) -> Option<De> {
        match &mut self.st {
            State::Whole(c) => Some(match &mut c.clone() {
                Cr::V(x) => De::V(x.decrypter().clone()),
                Cr::T(x) => De::T(x.decrypter().clone()),
                Cr::WC(x) => De::WC(x.decrypter().clone()),
                Cr::WS(x) => De::WS(x.decrypter().clone()),
            }),
            State::Parts(_, d) => Some(d.clone()),
            State::Gone => None,
        }
    }
    /// raw operation on a clone of the half: (output, state after) - the reference the typed helpers must agree with
    pub fn raw_enc(&mut self, wire: &[u8]) -> Value {
        match self.enc_clone() {
            Some(mut e) => {
                let mut buf = wire.to_vec();
                match guard(|| e.encrypt(&mut buf)) {
                    Ok(_) => json!({"out": b(&buf), "st": e.state()}),
                    Err(_) => json!({"panic": true}),
                }
            }
            None => json!({}),
        }
    }
    pub fn raw_dec(&mut self, bytes: &[u8]) -> Value {
        match self.dec_clone() {
            Some(mut d) => {
                let mut buf = bytes.to_vec();
                match guard(|| d.decrypt(&mut buf)) {
                    Ok(_) => json!({"out": b(&buf), "st": d.state()}),
                    Err(_) => json!({"panic": true}),
                }
            }
            None => json!({}),
        }
    }
    pub fn is_whole(&self) -> bool {
        matches!(self.st, State::Whole(_))
    }
}

fn io_res<T>(r: Result<std::io::Result<T>, String>, okf: impl FnOnce(T) -> Value) -> Value {
    match r {
        Ok(Ok(v)) => okf(v),
        Ok(Err(e)) => json!({"kind": "err", "io": kind_name(e.kind())}),
        Err(m) => panic_res(&m),
    }
}

impl C {
    pub fn new(tr: Tr) -> C {
        C { tr, next: 1, ref_out: None, ref_hdr: None, sent: None, is_clone: false }
    }
    fn sent_json(&mut self) -> Value {
        match self.sent.take() {
            Some((s, o)) => json!({"size": s, "opcode": u32le(o)}),
            None => json!({}),
        }
    }
    fn sent_json_keep(&mut self) -> Value {
        match self.sent {
            Some((s, o)) => json!({"size": s, "opcode": u32le(o)}),
            None => json!({}),
        }
    }
    pub fn hid(&mut self) -> u64 {
        self.next += 1;
        self.next - 1
    }
    pub fn reset(&mut self, what: &str) {
        clear_hooks();
        self.tr.reset(what);
    }

    /// ProofSeed::{new,default} + into_client_header_crypto. `inject_seed` replaces the draw of new().
    pub fn world_client(&mut self, exp: &'static str, user: &str, key: [u8; 40], sseed: u32, via_new: bool, inject_seed: Option<u32>)
        -> Option<(Conn, [u8; 20], u32)> {
        let (he, hd) = (self.hid(), self.hid());
        let u = NormalizedString::new(user).expect("scenario user");
        clear_hooks();
        let site = match exp { "vanilla" => "VanillaSeed", "tbc" => "TbcSeed", _ => "WrathSeed" };
        if let (true, Some(s)) = (via_new, inject_seed) {
            inject(site, &s.to_le_bytes());
        }
        let r = guard(|| match exp {
            "vanilla" => {
                let s = if via_new { van::ProofSeed::new() } else { van::ProofSeed::default() };
                let seed = s.seed();
                let (p, c) = s.into_client_header_crypto(&u, key, sseed);
                (seed, p, Cr::V(c))
            }
            "tbc" => {
                let s = if via_new { tbc::ProofSeed::new() } else { tbc::ProofSeed::default() };
                let seed = s.seed();
                let (p, c) = s.into_client_header_crypto(&u, key, sseed);
                (seed, p, Cr::T(c))
            }
            _ => {
                let s = if via_new { wr::ProofSeed::new() } else { wr::ProofSeed::default() };
                let seed = s.seed();
                let (p, c) = s.into_client_header_crypto(&u, key, sseed);
                (seed, p, Cr::WC(c))
            }
        });
        let d = draws();
        let mut e = json!({"ev": "WorldClient", "exp": exp, "he": he, "hd": hd, "user": cps(user), "K": b(&key), "sseed": u32le(sseed),
                           "via": if via_new { "new" } else { "default" }, "draws": d});
        match r {
            Ok((seed, proof, c)) => {
                let mut conn = Conn { st: State::Whole(c), he, hd, exp, role: "client" };
                e["res"] = json!({"kind": "ok", "proof": b(&proof), "seed": u32le(seed), "est": conn.enc_state(), "dst": conn.dec_state()});
                self.tr.ev(e);
                Some((conn, proof, seed))
            }
            Err(m) => {
                e["res"] = panic_res(&m);
                self.tr.ev(e);
                None
            }
        }
    }

    #[allow(clippy::too_many_arguments)]
    pub fn world_server(&mut self, exp: &'static str, user: &str, key: [u8; 40], proof: [u8; 20], cseed: u32, via_new: bool, inject_seed: Option<u32>)
        -> Option<Conn> {
        let (he, hd) = (self.hid(), self.hid());
        let u = NormalizedString::new(user).expect("scenario user");
        clear_hooks();
        let site = match exp { "vanilla" => "VanillaSeed", "tbc" => "TbcSeed", _ => "WrathSeed" };
        if let (true, Some(s)) = (via_new, inject_seed) {
            inject(site, &s.to_le_bytes());
        }
        let r = guard(|| match exp {
            "vanilla" => {
                let s = if via_new { van::ProofSeed::new() } else { van::ProofSeed::default() };
                let seed = s.seed();
                (seed, s.into_server_header_crypto(&u, key, proof, cseed).map(Cr::V))
            }
            "tbc" => {
                let s = if via_new { tbc::ProofSeed::new() } else { tbc::ProofSeed::default() };
                let seed = s.seed();
                (seed, s.into_server_header_crypto(&u, key, proof, cseed).map(Cr::T))
            }
            _ => {
                let s = if via_new { wr::ProofSeed::new() } else { wr::ProofSeed::default() };
                let seed = s.seed();
                (seed, s.into_server_header_crypto(&u, key, proof, cseed).map(Cr::WS))
            }
        });
        let d = draws();
        let mut e = json!({"ev": "WorldServer", "exp": exp, "he": he, "hd": hd, "user": cps(user), "K": b(&key), "proof": b(&proof),
                           "cseed": u32le(cseed), "via": if via_new { "new" } else { "default" }, "draws": d});
        match r {
            Ok((seed, Ok(c))) => {
                let mut conn = Conn { st: State::Whole(c), he, hd, exp, role: "server" };
                e["res"] = json!({"kind": "ok", "seed": u32le(seed), "est": conn.enc_state(), "dst": conn.dec_state()});
                self.tr.ev(e);
                Some(conn)
            }
            Ok((seed, Err(err))) => {
                e["res"] = json!({"kind": "err", "seed": u32le(seed), "client": b(&err.client_proof), "server": b(&err.server_proof)});
                self.tr.ev(e);
                None
            }
            Err(m) => {
                e["res"] = panic_res(&m);
                self.tr.ev(e);
                None
            }
        }
    }

    /// raw encrypt (dir = "enc") or decrypt (dir = "dec") of a chunk
    pub fn call(&mut self, c: &mut Conn, dir: &str, data: &[u8], via: &str) -> Option<Vec<u8>> {
        let mut buf = data.to_vec();
        let r = if dir == "enc" {
            guard(|| enc_half!(c, via, |h| h.encrypt(&mut buf), V, T, WC, WS))
        } else {
            guard(|| dec_half!(c, via, |h| h.decrypt(&mut buf), V, T, WC, WS))
        };
        let h = if dir == "enc" { c.he } else { c.hd };
        let st = if dir == "enc" { c.enc_state() } else { c.dec_state() };
        let mut e = json!({"ev": "Call", "h": h, "data": b(data), "via": via, "st": st});
        if let Some(r0) = self.ref_out.take() {
            e["ref"] = b(&r0);
        }
        match r {
            Ok(_) => {
                e["res"] = json!({"kind": "ok", "out": b(&buf)});
                self.tr.ev(e);
                Some(buf)
            }
            Err(m) => {
                e["res"] = panic_res(&m);
                self.tr.ev(e);
                None
            }
        }
    }

    /// typed server-header encryption (size u16 for vanilla/tbc, u32 for wrath)
    /// n calls of one byte each, recorded as ONE Call event (the specification's stream does not depend on how the
    /// bytes are grouped into calls): counters of calls must not run over
    pub fn bulk_calls(&mut self, c: &mut Conn, dir: &str, n: usize, via: &str) -> bool {
        let mut data = vec![0u8; n];
        let mut x: u32 = 0x2545_F491 ^ n as u32;
        for d in data.iter_mut() { x ^= x << 13; x ^= x >> 17; x ^= x << 5; *d = x as u8; }
        let mut out = vec![0u8; n];
        let mut failed: Option<String> = None;
        for k in 0..n {
            let mut one = [data[k]];
            let r = if dir == "enc" {
                guard(|| enc_half!(c, via, |h| h.encrypt(&mut one), V, T, WC, WS))
            } else {
                guard(|| dec_half!(c, via, |h| h.decrypt(&mut one), V, T, WC, WS))
            };
            match r { Ok(_) => out[k] = one[0], Err(m) => { failed = Some(m); break; } }
        }
        let h = if dir == "enc" { c.he } else { c.hd };
        let st = if dir == "enc" { c.enc_state() } else { c.dec_state() };
        let mut e = json!({"ev": "Call", "h": h, "data": b(&data), "via": via, "st": st});
        match failed {
            None => { e["res"] = json!({"kind": "ok", "out": b(&out)}); self.tr.ev(e); true }
            Some(m) => { e["res"] = panic_res(&m); self.tr.ev(e); false }
        }
    }

    pub fn enc_server_hdr(&mut self, c: &mut Conn, size: u32, opcode: u16, via: &str) -> Option<Vec<u8>> {
        let wire = wire_server(c.exp, size, opcode);
        let raw = c.raw_enc(&wire);
        let r = guard(|| match c.exp {
            "wrath" => enc_half!(c, via, |h| h.encrypt_server_header(size, opcode).to_vec(), WS),
            _ => enc_half!(c, via, |h| h.encrypt_server_header(size as u16, opcode).to_vec(), V, T),
        });
        let st = c.enc_state();
        let mut e = json!({"ev": "EncHdr", "h": c.he, "kind": "server", "size": size, "opcode": opcode, "via": via, "st": st, "wire": b(&wire), "raw": raw});
        self.finish_bytes(&mut e, r)
    }
    pub fn enc_client_hdr(&mut self, c: &mut Conn, size: u16, opcode: u32, via: &str) -> Option<Vec<u8>> {
        let wire = wire_client(size, opcode);
        let raw = c.raw_enc(&wire);
        let r = guard(|| enc_half!(c, via, |h| h.encrypt_client_header(size, opcode).to_vec(), V, T, WC));
        let st = c.enc_state();
        let mut e = json!({"ev": "EncHdr", "h": c.he, "kind": "client", "size": size, "opcode": u32le(opcode), "via": via, "st": st, "wire": b(&wire), "raw": raw});
        self.finish_bytes(&mut e, r)
    }
    fn finish_bytes(&mut self, e: &mut Value, r: Result<Option<Vec<u8>>, String>) -> Option<Vec<u8>> {
        match r {
            Ok(Some(v)) => {
                e["res"] = json!({"kind": "ok", "out": b(&v)});
                self.tr.ev(e.take());
                Some(v)
            }
            Ok(None) => {
                eprintln!("harness: operation not available on this object: {}", e);
                std::process::exit(2)
            }
            Err(m) => {
                e["res"] = panic_res(&m);
                self.tr.ev(e.take());
                None
            }
        }
    }

    /// typed fixed-length header decryption: vanilla/tbc server header (4 bytes) on a client
    pub fn dec_server_hdr(&mut self, c: &mut Conn, bytes: [u8; 4], via: &str) -> Option<(u32, u16)> {
        let raw = c.raw_dec(&bytes);
        let sent = self.sent_json();
        let r = guard(|| dec_half!(c, via, |h| { let x = h.decrypt_server_header(bytes); (x.size as u32, x.opcode) }, V, T));
        let st = c.dec_state();
        let mut e = json!({"ev": "DecHdr", "h": c.hd, "kind": "server", "bytes": b(&bytes), "via": via, "st": st, "raw": raw, "sent": sent});
        match r {
            Ok(Some((s, o))) => { e["res"] = json!({"kind": "ok", "header": hdr_json_server(s, o)}); self.tr.ev(e); Some((s, o)) }
            Ok(None) => { eprintln!("harness: dec_server_hdr not available"); std::process::exit(2) }
            Err(m) => { e["res"] = panic_res(&m); self.tr.ev(e); None }
        }
    }
    pub fn dec_client_hdr(&mut self, c: &mut Conn, bytes: [u8; 6], via: &str) -> Option<(u16, u32)> {
        let raw = c.raw_dec(&bytes);
        let sent = self.sent_json();
        let r = guard(|| match (&mut c.st, via) {
            // the combined objects have their own decrypt_client_header
            (State::Whole(Cr::V(x)), "combined") => { let h = x.decrypt_client_header(bytes); Some((h.size, h.opcode)) }
            (State::Whole(Cr::T(x)), "combined") => { let h = x.decrypt_client_header(bytes); Some((h.size, h.opcode)) }
            (State::Whole(Cr::WS(x)), "combined") => { let h = x.decrypt_client_header(bytes); Some((h.size, h.opcode)) }
            _ => dec_half!(c, "half", |h| { let x = h.decrypt_client_header(bytes); (x.size, x.opcode) }, V, T, WS),
        });
        let st = c.dec_state();
        let mut e = json!({"ev": "DecHdr", "h": c.hd, "kind": "client", "bytes": b(&bytes), "via": via, "st": st, "raw": raw, "sent": sent});
        match r {
            Ok(Some((s, o))) => { e["res"] = json!({"kind": "ok", "header": hdr_json_client(s, o)}); self.tr.ev(e); Some((s, o)) }
            Ok(None) => { eprintln!("harness: dec_client_hdr not available"); std::process::exit(2) }
            Err(m) => { e["res"] = panic_res(&m); self.tr.ev(e); None }
        }
    }

    /// wrath client: attempt_decrypt_server_header; Some(Some(header)) | Some(None) = one more byte
    pub fn wrath_attempt(&mut self, c: &mut Conn, bytes: [u8; 4], via: &str) -> Option<Option<(u32, u16)>> {
        let raw = c.raw_dec(&bytes);
        let sent = self.sent_json_keep();
        let r = guard(|| dec_half!(c, via, |h| match h.attempt_decrypt_server_header(bytes) {
            wr::WrathServerAttempt::Header(x) => Some((x.size, x.opcode)),
            wr::WrathServerAttempt::AdditionalByteRequired => None,
        }, WC));
        let st = c.dec_state();
        let mut e = json!({"ev": "WrathAttempt", "h": c.hd, "bytes": b(&bytes), "via": via, "st": st, "raw": raw, "sent": sent});
        if self.is_clone {
            e["clone"] = Value::Bool(true);
        }
        match r {
            Ok(Some(Some((s, o)))) => { e["res"] = json!({"kind": "ok", "header": hdr_json_server(s, o)}); self.tr.ev(e); Some(Some((s, o))) }
            Ok(Some(None)) => { e["res"] = json!({"kind": "need5"}); self.tr.ev(e); Some(None) }
            Ok(None) => { eprintln!("harness: wrath_attempt not available"); std::process::exit(2) }
            Err(m) => { e["res"] = panic_res(&m); self.tr.ev(e); None }
        }
    }
    pub fn wrath_complete(&mut self, c: &mut Conn, byte: u8, via: &str) -> Option<(u32, u16)> {
        let raw = c.raw_dec(&[byte]);
        let sent = self.sent_json();
        let r = guard(|| dec_half!(c, via, |h| { let x = h.decrypt_large_server_header(byte); (x.size, x.opcode) }, WC));
        let st = c.dec_state();
        let mut e = json!({"ev": "WrathComplete", "h": c.hd, "byte": byte, "via": via, "st": st, "raw": raw, "sent": sent});
        if self.is_clone {
            e["clone"] = Value::Bool(true);
        }
        match r {
            Ok(Some((s, o))) => { e["res"] = json!({"kind": "ok", "header": hdr_json_server(s, o)}); self.tr.ev(e); Some((s, o)) }
            Ok(None) => { eprintln!("harness: wrath_complete not available"); std::process::exit(2) }
            Err(m) => { e["res"] = panic_res(&m); self.tr.ev(e); None }
        }
    }

    /// read_and_decrypt_{server,client}_header from a scripted reader
    pub fn read_hdr(&mut self, c: &mut Conn, kind: &str, script: &[Step], via: &str) -> Value {
        let before = c.clone();
        let sent = self.sent_json();
        // reference for a wrath long header that fails at the fifth byte: the state after the 4-byte attempt alone
        let all: Vec<u8> = script.iter().flat_map(|s| if let Step::Data(d) = s { d.clone() } else { vec![] }).collect();
        let after_attempt: Value = if c.exp == "wrath" && kind == "server" && all.len() >= 4 {
            match c.dec_clone() {
                Some(De::WC(mut d)) => {
                    let mut a4 = [0u8; 4];
                    a4.copy_from_slice(&all[..4]);
                    match guard(|| { let _ = d.attempt_decrypt_server_header(a4); }) { Ok(_) => De::WC(d).state(), Err(_) => json!({}) }
                }
                _ => json!({}),
            }
        } else { json!({}) };
        let other_before = c.enc_state();
        let mut rd = ScriptReader { steps: script.iter().cloned().collect() };
        let res = if kind == "client" {
            let r = guard(|| dec_half!(c, via, |h| h.read_and_decrypt_client_header(&mut rd).map(|x| (x.size, x.opcode)), V, T, WS));
            match r {
                Ok(Some(x)) => io_res(Ok(x), |(s, o)| json!({"kind": "ok", "header": hdr_json_client(s, o)})),
                Ok(None) => { eprintln!("harness: read client hdr not available"); std::process::exit(2) }
                Err(m) => panic_res(&m),
            }
        } else {
            let r = guard(|| match c.exp {
                "wrath" => dec_half!(c, via, |h| h.read_and_decrypt_server_header(&mut rd).map(|x| (x.size, x.opcode)), WC),
                _ => dec_half!(c, via, |h| h.read_and_decrypt_server_header(&mut rd).map(|x| (x.size as u32, x.opcode)), V, T),
            });
            match r {
                Ok(Some(x)) => io_res(Ok(x), |(s, o)| json!({"kind": "ok", "header": hdr_json_server(s, o)})),
                Ok(None) => { eprintln!("harness: read server hdr not available"); std::process::exit(2) }
                Err(m) => panic_res(&m),
            }
        };
        let same = *c == before;
        let st = c.dec_state();
        let left: usize = rd.steps.iter().map(|s| if let Step::Data(d) = s { d.len() } else { 0 }).sum();
        let other_after = c.enc_state();
        let mut ev = json!({"ev": "ReadHdr", "h": c.hd, "kind": kind, "script": steps_json(script), "via": via, "res": res.clone(),
                          "same": same, "unread": left, "st": st, "sent": sent, "afterAttempt": after_attempt,
                          "otherSame": other_before == other_after});
        if let Some(rh) = self.ref_hdr.take() { ev["refHeader"] = rh; }
        self.tr.ev(ev);
        res
    }

    /// write_encrypted_{server,client}_header to a scripted writer
    pub fn write_hdr(&mut self, c: &mut Conn, kind: &str, size: u32, opcode: u32, script: &[Step], via: &str) -> Value {
        let wire = if kind == "client" { wire_client(size as u16, opcode) } else { wire_server(c.exp, size, opcode as u16) };
        let raw = c.raw_enc(&wire);
        let other_before = c.dec_state();
        let mut w = ScriptWriter { steps: script.iter().cloned().collect(), delivered: vec![] };
        let r = guard(|| {
            if kind == "client" {
                enc_half!(c, via, |h| h.write_encrypted_client_header(&mut w, size as u16, opcode), V, T, WC)
            } else if c.exp == "wrath" {
                enc_half!(c, via, |h| h.write_encrypted_server_header(&mut w, size, opcode as u16), WS)
            } else {
                enc_half!(c, via, |h| h.write_encrypted_server_header(&mut w, size as u16, opcode as u16), V, T)
            }
        });
        let res = match r {
            Ok(Some(x)) => io_res(Ok(x), |_| json!({"kind": "ok"})),
            Ok(None) => { eprintln!("harness: write hdr not available"); std::process::exit(2) }
            Err(m) => panic_res(&m),
        };
        let st = c.enc_state();
        let other_after = c.dec_state();
        let opv = if kind == "client" { u32le(opcode) } else { Value::from(opcode) };
        self.tr.ev(json!({"ev": "WriteHdr", "h": c.he, "kind": kind, "size": size, "opcode": opv, "script": steps_json(script), "via": via,
                          "res": res.clone(), "delivered": b(&w.delivered), "st": st, "wire": b(&wire), "raw": raw,
                          "otherSame": other_before == other_after}));
        res
    }

    pub fn split(&mut self, c: &mut Conn) {
        let st = std::mem::replace(&mut c.st, State::Gone);
        c.st = match st {
            State::Whole(Cr::V(x)) => { let (e, d) = x.split(); State::Parts(En::V(e), De::V(d)) }
            State::Whole(Cr::T(x)) => { let (e, d) = x.split(); State::Parts(En::T(e), De::T(d)) }
            State::Whole(Cr::WC(x)) => { let (e, d) = x.split(); State::Parts(En::WC(e), De::WC(d)) }
            State::Whole(Cr::WS(x)) => { let (e, d) = x.split(); State::Parts(En::WS(e), De::WS(d)) }
            other => other,
        };
        let (es, ds) = (c.enc_state(), c.dec_state());
        self.tr.ev(json!({"ev": "Split", "he": c.he, "hd": c.hd, "est": es, "dst": ds}));
    }

    /// vanilla only: EncrypterHalf::unsplit(decrypter) where the decrypter may come from another connection
    pub fn unsplit(&mut self, c: &mut Conn, other_dec: Option<(u64, van::DecrypterHalf)>) -> bool {
        let st = std::mem::replace(&mut c.st, State::Gone);
        match st {
            State::Parts(En::V(e), De::V(own)) => {
                let (hd, d) = match other_dec { Some((id, d)) => (id, d), None => (c.hd, own.clone()) };
                let pair1 = e.is_pair_of(&d);
                let pair2 = d.is_pair_of(&e);
                let keep = e.clone();
                match e.unsplit(d) {
                    Ok(whole) => {
                        c.st = State::Whole(Cr::V(whole));
                        c.hd = hd;
                        let (es, ds) = (c.enc_state(), c.dec_state());
                        self.tr.ev(json!({"ev": "Unsplit", "he": c.he, "hd": hd, "res": {"kind": "ok"}, "pair": [pair1, pair2], "est": es, "dst": ds}));
                        true
                    }
                    Err(err) => {
                        c.st = State::Parts(En::V(keep), De::V(own));
                        self.tr.ev(json!({"ev": "Unsplit", "he": c.he, "hd": hd, "res": {"kind": "err", "display": err.to_string()}, "pair": [pair1, pair2]}));
                        false
                    }
                }
            }
            other => { c.st = other; false }
        }
    }

    pub fn clone_conn(&mut self, c: &Conn) -> Conn {
        let mut n = c.clone();
        n.he = self.hid();
        n.hd = self.hid();
        self.tr.ev(json!({"ev": "CloneHalf", "h": c.he, "h2": n.he}));
        self.tr.ev(json!({"ev": "CloneHalf", "h": c.hd, "h2": n.hd}));
        n
    }
    /// `dst.clone_from(&src)` on the concrete half / combined types (an older object refreshed from a live one):
    /// afterwards dst is a copy of src, whatever it held before
    pub fn clone_from_conn(&mut self, dst: &mut Conn, src: &Conn) {
        let done = match (&mut dst.st, &src.st) {
            (State::Whole(a), State::Whole(b2)) => match (a, b2) {
                (Cr::V(x), Cr::V(y)) => { x.clone_from(y); true }
                (Cr::T(x), Cr::T(y)) => { x.clone_from(y); true }
                (Cr::WC(x), Cr::WC(y)) => { x.clone_from(y); true }
                (Cr::WS(x), Cr::WS(y)) => { x.clone_from(y); true }
                _ => false,
            },
            (State::Parts(e1, d1), State::Parts(e2, d2)) => {
                let e = match (e1, e2) {
                    (En::V(x), En::V(y)) => { x.clone_from(y); true }
                    (En::T(x), En::T(y)) => { x.clone_from(y); true }
                    (En::WC(x), En::WC(y)) => { x.clone_from(y); true }
                    (En::WS(x), En::WS(y)) => { x.clone_from(y); true }
                    _ => false,
                };
                let d = match (d1, d2) {
                    (De::V(x), De::V(y)) => { x.clone_from(y); true }
                    (De::T(x), De::T(y)) => { x.clone_from(y); true }
                    (De::WC(x), De::WC(y)) => { x.clone_from(y); true }
                    (De::WS(x), De::WS(y)) => { x.clone_from(y); true }
                    _ => false,
                };
                e && d
            }
            _ => false,
        };
        if !done {
            return;
        }
        self.tr.ev(json!({"ev": "DropHalf", "h": dst.he}));
        self.tr.ev(json!({"ev": "DropHalf", "h": dst.hd}));
        dst.he = self.hid();
        dst.hd = self.hid();
        self.tr.ev(json!({"ev": "CloneHalf", "h": src.he, "h2": dst.he}));
        self.tr.ev(json!({"ev": "CloneHalf", "h": src.hd, "h2": dst.hd}));
    }
    pub fn drop_conn(&mut self, c: &Conn) {
        self.tr.ev(json!({"ev": "DropHalf", "h": c.he}));
        self.tr.ev(json!({"ev": "DropHalf", "h": c.hd}));
    }
}
