//! Drivers for world login and header encryption (C06 - C12, parts of C14).

use crate::conn::*;
use crate::util::*;
use rand::rngs::StdRng;
use rand::{Rng, RngCore, SeedableRng};
use serde_json::{json, Value};
use sha1::{Digest, Sha1};
use std::io::ErrorKind;
use wow_srp::wrath_header as wr;

pub const EXPS: [&str; 3] = ["vanilla", "tbc", "wrath"];
const SEEDS: [u32; 6] = [0, 1, 0x7FFF_FFFF, 0x8000_0000, 0xFFFF_FFFF, 0xDEAD_BEEF];
const USERS: [&str; 11] = ["A", "ABCDEFGHIJKLMNOP", "us:er\"x;\\", "12345", "Mixed Case~", "1#1", "12#1", "a@b.c", "x y", "N-M_", "12#34#5"];
/// names that differ from one another only after a separator (or are the part before it): a proof for one is a proof
/// for that one only
const RELATED_USERS: [(&str, &str); 8] = [("12#1", "12#2"), ("12#1", "12"), ("1#1", "1"), ("a@b.c", "a@b"), ("a@b.c", "a"), ("x y", "x"), ("N-M_", "N"), ("12#34#5", "12#34")];

fn rnd40(r: &mut StdRng) -> [u8; 40] {
    let mut a = [0u8; 40];
    r.fill_bytes(&mut a);
    a
}
fn key_class(r: &mut StdRng, k: usize) -> [u8; 40] {
    if k % 11 == 7 {
        return [r.gen::<u8>() | 0x80; 40];      // all bytes equal, top bit set
    }
    if k % 11 == 9 {
        let mut a = rnd40(r);
        a[19] = 0;
        a[20] = 0;
        return a;
    }
    match k % 5 {
        0 => rnd40(r),
        1 => [0u8; 40],
        2 => [0xff; 40],
        3 => {
            let mut a = [0u8; 40];
            a[r.gen_range(0..40)] = r.gen_range(1..=255);
            a
        }
        _ => {
            let mut a = rnd40(r);
            a[r.gen_range(0..40)] = 0;
            a
        }
    }
}
fn flip20(v: &[u8; 20], bit: usize) -> [u8; 20] {
    let mut o = *v;
    o[bit / 8] ^= 1 << (bit % 8);
    o
}

/// an honest world login of one expansion: (client conn, server conn)
pub fn pair(c: &mut C, exp: &'static str, user: &str, key: [u8; 40], cseed: Option<u32>, sseed: u32) -> Option<(Conn, Conn)> {
    let (cl, proof, cs) = c.world_client(exp, user, key, sseed, true, cseed)?;
    let sv = c.world_server(exp, user, key, proof, cs, true, Some(sseed))?;
    Some((cl, sv))
}

/// C06
pub fn run_world(args: &Args) -> (u64, u64) {
    let mut c = C::new(Tr::create(&args.out));
    let mut rng = StdRng::seed_from_u64(args.seed);
    let thorough = args.tier == "thorough";
    let mut n = 0usize;
    for exp in EXPS {
        let mut combos: Vec<(u32, u32)> = vec![];
        for a in SEEDS {
            for b2 in SEEDS {
                combos.push((a, b2));
            }
        }
        for _ in 0..(if thorough { 200 } else { 12 }) {
            combos.push((rng.gen(), rng.gen()));
        }
        for (ci, (cseed, sseed)) in combos.iter().enumerate() {
            if !thorough && ci % 3 != (n % 3) && ci >= 6 {
                continue;
            }
            n += 1;
            c.reset("world");
            let user = USERS[n % USERS.len()];
            let key = key_class(&mut rng, n);
            // honest: own seeds injected through new(); the returned crypto objects must be keyed with K
            let Some((mut cl, proof, cs)) = c.world_client(exp, user, key, *sseed, true, Some(*cseed)) else { continue };
            if let Some(mut sv) = c.world_server(exp, user, key, proof, cs, true, Some(*sseed)) {
                // first header round trip in both directions
                if let Some(h) = c.enc_server_hdr(&mut sv, 12, 0x1EE, "combined") {
                    let mut a4 = [0u8; 4];
                    a4.copy_from_slice(&h[..4]);
                    c.sent = Some((12, 0x1EE));
                    if exp == "wrath" {
                        c.wrath_attempt(&mut cl, a4, "combined");
                    } else {
                        c.dec_server_hdr(&mut cl, a4, "combined");
                    }
                }
                if let Some(h) = c.enc_client_hdr(&mut cl, 4, 0x1DC, "combined") {
                    let mut a6 = [0u8; 6];
                    a6.copy_from_slice(&h);
                    c.sent = Some((4, 0x1DC));
                    c.dec_client_hdr(&mut sv, a6, "combined");
                }
            }
            // perturbations presented to a server with the same own seed
            let bits: Vec<usize> = if thorough || n % 9 == 0 { (0..160).collect() } else { vec![n % 160, (n * 7) % 160, 159 - (n % 8)] };
            for bit in bits {
                c.world_server(exp, user, key, flip20(&proof, bit), cs, true, Some(*sseed));
            }
            // differences in two or three bytes with the SAME mask (positions 8, 16, 4, 1 ... apart), swapped bytes,
            // a reversed proof: comparisons that fold the differences of several bytes or lanes must not let them cancel
            {
                let m: u8 = 1 << (n % 8);
                let mut variants: Vec<[u8; 20]> = vec![];
                for (x, y) in [(n % 8, n % 8 + 8), (n % 4, n % 4 + 16), (8 + n % 4, 16 + n % 4), (n % 16, n % 16 + 4), (n % 19, n % 19 + 1), (0, 19)] {
                    let mut t = proof; t[x] ^= m; t[y] ^= m; variants.push(t);
                    let mut t = proof; t[x] ^= 0xFF; t[y] ^= 0xFF; variants.push(t);
                    let mut t = proof; t.swap(x, y); variants.push(t);
                }
                let mut t = proof; t[n % 4] ^= m; t[n % 4 + 8] ^= m; t[n % 4 + 16] ^= m; variants.push(t);
                let mut t = proof; t.reverse(); variants.push(t);
                {
                    let rv = crate::util::regroup_variants(&proof);
                    for v in rv.iter().step_by((rv.len() / 3).max(1)).take(3) {
                        let mut t = [0u8; 20];
                        t.copy_from_slice(v);
                        variants.insert(0, t);
                    }
                }
                let lim = if thorough || n % 3 == 0 { variants.len() } else { 6 };
                for t in variants.into_iter().take(lim) {
                    if t != proof {
                        c.world_server(exp, user, key, t, cs, true, Some(*sseed));
                    }
                }
            }
            let kbytes: Vec<usize> = if thorough || n % 9 == 1 { (0..40).collect() } else { vec![n % 40] };
            for kb in kbytes {
                let mut k2 = key;
                k2[kb] ^= 1 << (n % 8);
                c.world_server(exp, user, k2, proof, cs, true, Some(*sseed));
            }
            let other_user = if user == "A" { "B" } else { "A" };
            c.world_server(exp, other_user, key, proof, cs, true, Some(*sseed));
            for (u1, u2) in RELATED_USERS {
                if u1 == user { c.world_server(exp, u2, key, proof, cs, true, Some(*sseed)); }
                if u2 == user { c.world_server(exp, u1, key, proof, cs, true, Some(*sseed)); }
            }
            c.world_server(exp, user, key, proof, cs.wrapping_add(1), true, Some(*sseed));
            c.world_server(exp, user, key, proof, cs.wrapping_sub(1), true, Some(*sseed));
            c.world_server(exp, user, key, proof, cs, true, Some(sseed.wrapping_add(1)));
            c.world_server(exp, user, key, proof, cs, true, Some(sseed.wrapping_sub(1)));
            // the same proof under RELATED seeds: bytes swapped, rotated, complemented, bits reversed (either seed)
            for f in [u32::swap_bytes as fn(u32) -> u32, |x| x.rotate_left(8), |x| x.rotate_left(16), |x| !x, u32::reverse_bits, |x| x ^ 0x8000_0000] {
                if f(cs) != cs {
                    c.world_server(exp, user, key, proof, f(cs), true, Some(*sseed));
                }
                if f(*sseed) != *sseed {
                    c.world_server(exp, user, key, proof, cs, true, Some(f(*sseed)));
                }
            }
            // seeds swapped (accepted only when they are equal)
            c.world_server(exp, user, key, proof, *sseed, true, Some(cs));
            // lower-case spelling of the same user is the same normalised name
            c.world_server(exp, &user.to_ascii_lowercase(), key, proof, cs, true, Some(*sseed));
        }
        // names that together contain EVERY printable ASCII character, honest world login in each expansion
        {
            c.reset("world-name-characters");
            for (k, name) in ["!\"#$%&'()*+,-./0", "123456789:;<=>?@A", "BCDEFGHIJKLMNOPQ", "RSTUVWXYZ[\\]^_`a", "bcdefghijklmnopq", "rstuvwxyz{|}~ A", "A|B", "a{b}c~d`e"].iter().enumerate() {
                let name = &name[..name.len().min(16)];
                let key = rnd40(&mut rng);
                if let Some((_cl, proof, cs)) = c.world_client(exp, name, key, 77 + k as u32, true, Some(5 + k as u32)) {
                    c.world_server(exp, name, key, proof, cs, true, Some(77 + k as u32));
                }
            }
        }
        // proofs with a zero first / last byte (found by trying server seeds through the public API), seeds with zero bytes
        for target in [0usize, 19] {
            c.reset("world-zero-proof-byte");
            let key = rnd40(&mut rng);
            let cseed: u32 = 0x00AB_00CD;
            for try_seed in 0..3000u32 {
                let sseed = try_seed.wrapping_mul(0x0101_0001) ^ 0xFF00_0000;
                let u = wow_srp::normalized_string::NormalizedString::new("ZEROBYTE").unwrap();
                clear_hooks();
                inject(match exp { "vanilla" => "VanillaSeed", "tbc" => "TbcSeed", _ => "WrathSeed" }, &cseed.to_le_bytes());
                let proof = match exp {
                    "vanilla" => wow_srp::vanilla_header::ProofSeed::new().into_client_header_crypto(&u, key, sseed).0,
                    "tbc" => wow_srp::tbc_header::ProofSeed::new().into_client_header_crypto(&u, key, sseed).0,
                    _ => wow_srp::wrath_header::ProofSeed::new().into_client_header_crypto(&u, key, sseed).0,
                };
                if proof[target] == 0 {
                    if let Some((_cl, pr, cs)) = c.world_client(exp, "ZEROBYTE", key, sseed, true, Some(cseed)) {
                        c.world_server(exp, "ZEROBYTE", key, pr, cs, true, Some(sseed));
                        let mut p2 = pr;
                        p2[target] = 1;
                        c.world_server(exp, "ZEROBYTE", key, p2, cs, true, Some(sseed));
                        let mut p3 = pr;
                        p3[19 - target] ^= 0x80;
                        c.world_server(exp, "ZEROBYTE", key, p3, cs, true, Some(sseed));
                    }
                    break;
                }
            }
            clear_hooks();
        }
        // seeds drawn by the library itself (new() without injection, and default())
        for k in 0..(if thorough { 200 } else { 20 }) {
            c.reset("world-own-seed");
            let key = rnd40(&mut rng);
            let user = USERS[k % USERS.len()];
            if let Some((_cl, proof, cs)) = c.world_client(exp, user, key, rng.gen(), k % 2 == 0, None) {
                let _ = (proof, cs);
            }
            // the server draws its own seed; the client must be told that seed to succeed
            c.world_server(exp, user, key, [0u8; 20], rng.gen(), k % 2 == 1, None);
        }
    }
    c.tr.finish()
}

const CHUNKS: [usize; 9] = [0, 1, 2, 19, 20, 21, 39, 40, 41];

fn chunk_len(r: &mut StdRng, left: usize, big: bool) -> usize {
    let k = match r.gen_range(0..12) {
        x if x < 9 => CHUNKS[x],
        9 => 80,
        10 => {
            if big {
                4096
            } else {
                257
            }
        }
        _ => r.gen_range(0..300),
    };
    k.min(left)
}

/// one direction of traffic: `sender` encrypts `total` bytes in its own chunking, `receiver` decrypts in another
fn stream_dir(c: &mut C, rng: &mut StdRng, sender: &mut Conn, receiver: &mut Conn, total: usize, big: bool) {
    let mut sent: Vec<u8> = Vec::with_capacity(total);
    let mut left = total;
    while left > 0 || rng.gen_range(0..40) == 0 {
        let n = chunk_len(rng, left, big);
        let mut data = vec![0u8; n];
        rng.fill_bytes(&mut data);
        let via = if rng.gen() { "combined" } else { "half" };
        match c.call(sender, "enc", &data, via) {
            Some(o) => sent.extend_from_slice(&o),
            None => return,
        }
        left -= n;
        if left == 0 {
            break;
        }
    }
    let mut off = 0usize;
    while off < sent.len() {
        let n = chunk_len(rng, sent.len() - off, big);
        let via = if rng.gen() { "combined" } else { "half" };
        if c.call(receiver, "dec", &sent[off..off + n], via).is_none() {
            return;
        }
        off += n;
    }
}

/// C07 / C08 / C09: random traffic, both directions, independent chunking; many keys with short streams
pub fn run_stream(args: &Args) -> (u64, u64) {
    let mut c = C::new(Tr::create(&args.out));
    let mut rng = StdRng::seed_from_u64(args.seed);
    let thorough = args.tier == "thorough";
    let exp: &'static str = match args.extra.first().map(|s| s.as_str()) {
        Some("tbc") => "tbc",
        Some("wrath") => "wrath",
        _ => "vanilla",
    };
    // long streams for a few keys (RC4 counters wrap at 256 and 65 536)
    let longs: Vec<usize> = if thorough { vec![70_000, 70_000, 200_000, if exp == "wrath" { 1_100_000 } else { 300_000 }] } else { vec![3000, 70_000] };
    for (k, total) in longs.iter().enumerate() {
        c.reset("stream-long");
        let key = key_class(&mut rng, if k == 0 { 0 } else { k });
        let Some((mut cl, mut sv)) = pair(&mut c, exp, "STREAM", key, None, rng.gen()) else { continue };
        if k % 2 == 1 {
            c.split(&mut cl);
            c.split(&mut sv);
        }
        stream_dir(&mut c, &mut rng, &mut cl, &mut sv, *total, true);
        stream_dir(&mut c, &mut rng, &mut sv, &mut cl, *total / 2, true);
    }
    // single calls larger than 65 536 bytes on each of the four halves (length counters must not be narrower than usize)
    {
        c.reset("stream-hugecall");
        let key = rnd40(&mut rng);
        if let Some((mut cl, mut sv)) = pair(&mut c, exp, "HUGE", key, None, rng.gen()) {
            let n = if thorough { 140_000 } else { 70_000 };
            let mut data = vec![0u8; n];
            rng.fill_bytes(&mut data);
            if let Some(o) = c.call(&mut cl, "enc", &data, "combined") { c.call(&mut sv, "dec", &o, "half"); }
            if let Some(o) = c.call(&mut sv, "enc", &data, "half") { c.call(&mut cl, "dec", &o, "combined"); }
            // and the stream goes on afterwards
            stream_dir(&mut c, &mut rng, &mut cl, &mut sv, 100, false);
            stream_dir(&mut c, &mut rng, &mut sv, &mut cl, 100, false);
        }
    }
    // ONE call of 40 MiB on a clone of each half, and the same bytes through another clone in chunks of 61 441 bytes:
    // digests of the outputs and the final states must agree (the stream does not depend on the chunking), and three
    // chunks of the chunked run (first, middle, last) are judged against the specification from their starting state
    {
        c.reset("stream-bigcall");
        let key = rnd40(&mut rng);
        if let Some((mut cl, mut sv)) = pair(&mut c, exp, "BIG", key, None, rng.gen()) {
            let n: usize = 40 << 20;
            let mut data = vec![0u8; n];
            let mut x: u64 = 0x1234_5678_9ABC_DEF1 ^ args.seed;
            for ch in data.chunks_mut(8) { x ^= x << 13; x ^= x >> 7; x ^= x << 17; let b8 = x.to_le_bytes(); let l = ch.len(); ch.copy_from_slice(&b8[..l]); }
            let klen = if exp == "vanilla" { 40 } else { 20 };
            for (which, dir) in [(0usize, "enc"), (1, "dec"), (1, "enc"), (0, "dec")] {
                let conn: &mut Conn = if which == 0 { &mut cl } else { &mut sv };
                let h = if dir == "enc" { conn.he } else { conn.hd };
                let r = guard(|| {
                    let chunk = 61_441usize;
                    let mut big = data.clone();
                    let mut chunked = data.clone();
                    let (st_big, st_ch);
                    let mut samples: Vec<(usize, u8, Vec<u8>, Vec<u8>)> = vec![];   // (offset, carried byte before, in, out)
                    if dir == "enc" {
                        let mut e1 = conn.enc_clone().unwrap();
                        let mut e2 = e1.clone();
                        e1.encrypt(&mut big);
                        let nchunks = (n + chunk - 1) / chunk;
                        for (ci, part) in chunked.chunks_mut(chunk).enumerate() {
                            let want = ci == 0 || ci == nchunks / 2 || ci + 1 == nchunks;
                            let before = if want { part[..part.len().min(4096)].to_vec() } else { vec![] };
                            e2.encrypt(part);
                            if want { samples.push((ci * chunk, 0, before, part[..part.len().min(4096)].to_vec())); }
                        }
                        st_big = e1.state();
                        st_ch = e2.state();
                    } else {
                        let mut d1 = conn.dec_clone().unwrap();
                        let mut d2 = d1.clone();
                        d1.decrypt(&mut big);
                        let nchunks = (n + chunk - 1) / chunk;
                        for (ci, part) in chunked.chunks_mut(chunk).enumerate() {
                            let want = ci == 0 || ci == nchunks / 2 || ci + 1 == nchunks;
                            let before = if want { part[..part.len().min(4096)].to_vec() } else { vec![] };
                            d2.decrypt(part);
                            if want { samples.push((ci * chunk, 0, before, part[..part.len().min(4096)].to_vec())); }
                        }
                        st_big = d1.state();
                        st_ch = d2.state();
                    }
                    let d_big: [u8; 20] = Sha1::new().chain_update(&big).finalize().into();
                    let d_ch: [u8; 20] = Sha1::new().chain_update(&chunked).finalize().into();
                    // the carried byte before each sampled chunk is the ciphertext byte just before it
                    let cipher: &Vec<u8> = if dir == "enc" { &chunked } else { &data };
                    for smp in samples.iter_mut() { smp.1 = if smp.0 == 0 { 0 } else { cipher[smp.0 - 1] }; }
                    (d_big, d_ch, st_big, st_ch, samples)
                });
                match r {
                    Ok((d_big, d_ch, st_big, st_ch, samples)) => {
                        c.tr.ev(json!({"ev": "BigCall", "h": h, "exp": exp, "dir": dir, "n": n, "dBig": b(&d_big), "dChunked": b(&d_ch),
                                        "stBig": st_big, "stChunked": st_ch, "res": {"kind": "ok"}}));
                        if exp != "wrath" {
                            // the halves are fresh: position = offset mod key length; the first chunk starts in (0, 0)
                            for (off, pbyte, inp, out) in samples {
                                c.tr.ev(json!({"ev": "StateChunk", "exp": exp, "dir": dir, "K": b(&key), "cst": {"i": off % klen, "p": pbyte},
                                                "data": b(&inp), "out": b(&out)}));
                            }
                        }
                    }
                    Err(m) => c.tr.ev(json!({"ev": "BigCall", "h": h, "exp": exp, "dir": dir, "n": n, "res": panic_res(&m)})),
                }
            }
        }
    }
    // MORE THAN 2^32 BYTES through one encrypter and one decrypter (both tiers, about 5 s per direction; Vanilla and TBC, whose position is defined
    // modulo the key length: 2^32 is a multiple of neither 40 nor 20, so a position kept in 32 bits goes wrong there).
    // Calls of 1 MiB, the first one 2 048 bytes shorter so that byte number 2^32 falls INSIDE a call; the calls at the
    // start, just before, across and after the 2^32 boundary and the last one are judged against the specification
    // from the state the specification says they start in (offset mod key length, previous ciphertext byte).
    if exp != "wrath" && !args.extra.iter().any(|x| x == "nopast32") {
        c.reset("stream-past32");
        let key = rnd40(&mut rng);
        if let Some((mut cl, mut sv)) = pair(&mut c, exp, "PAST", key, None, rng.gen()) {
            let klen: u64 = if exp == "vanilla" { 40 } else { 20 };
            let chunk: usize = 1 << 20;
            let mut pristine = vec![0u8; chunk];
            let mut x: u64 = 0x0F1E_2D3C_4B5A_6978 ^ args.seed;
            for ch in pristine.chunks_mut(8) { x ^= x << 13; x ^= x >> 7; x ^= x << 17; ch.copy_from_slice(&x.to_le_bytes()); }
            let total: u64 = (1u64 << 32) + (3u64 << 20);
            for dir in ["enc", "dec"] {
                let conn: &mut Conn = if dir == "enc" { &mut cl } else { &mut sv };
                let h = if dir == "enc" { conn.he } else { conn.hd };
                let r = guard(|| {
                    let mut e = if dir == "enc" { conn.enc_clone() } else { None };
                    let mut d = if dir == "dec" { conn.dec_clone() } else { None };
                    let mut samples: Vec<(u64, u8, Vec<u8>, Vec<u8>)> = vec![];
                    let mut buf = vec![0u8; chunk];
                    let (mut off, mut ci, mut prev_c): (u64, u64, u8) = (0, 0, 0);
                    while off < total {
                        let len = if ci == 0 { chunk - 2048 } else { chunk.min((total - off) as usize) };
                        buf[..len].copy_from_slice(&pristine[..len]);
                        for (k, byte) in ci.to_le_bytes().iter().enumerate() { buf[k] ^= byte; }
                        let end = off + len as u64;
                        let want = ci == 0 || ci == 1 || (end + (2 << 20) > (1u64 << 32) && off < (1u64 << 32) + (2 << 20)) || end == total;
                        let before = if want { buf[..4096.min(len)].to_vec() } else { vec![] };
                        let last_in = buf[len - 1];
                        if let Some(e) = e.as_mut() { e.encrypt(&mut buf[..len]); }
                        if let Some(d) = d.as_mut() { d.decrypt(&mut buf[..len]); }
                        if want { samples.push((off, prev_c, before, buf[..4096.min(len)].to_vec())); }
                        prev_c = if dir == "enc" { buf[len - 1] } else { last_in };
                        off = end;
                        ci += 1;
                    }
                    let st = if let Some(e) = e.as_ref() { e.state() } else { d.as_ref().unwrap().state() };
                    (samples, st, prev_c)
                });
                match r {
                    Ok((samples, st, last_c)) => {
                        c.tr.ev(json!({"ev": "Past32", "h": h, "exp": exp, "dir": dir, "nMiB": total >> 20, "st": st,
                                        "want": {"i": total % klen, "p": last_c}, "res": {"kind": "ok"}}));
                        for (off, pbyte, inp, out) in samples {
                            c.tr.ev(json!({"ev": "StateChunk", "exp": exp, "dir": dir, "K": b(&key), "cst": {"i": off % klen, "p": pbyte},
                                            "data": b(&inp), "out": b(&out)}));
                        }
                    }
                    Err(m) => c.tr.ev(json!({"ev": "Past32", "h": h, "exp": exp, "dir": dir, "nMiB": total >> 20, "res": panic_res(&m)})),
                }
            }
        }
    }
    // boundary walk: calls that END exactly on a key-period boundary (20 / 40), on 256, 1024, 65 536 and one byte around them
    {
        c.reset("stream-boundaries");
        if let Some((mut cl, mut sv)) = pair(&mut c, exp, "WALK", rnd40(&mut rng), None, rng.gen()) {
            for plan in [vec![20usize, 20, 40, 40, 136, 1, 767, 1, 255, 1], vec![39, 1, 1, 39, 176, 768, 1024, 1], vec![255, 1, 256, 512, 1, 1023, 1024]] {
                for n in plan {
                    let mut data = vec![0u8; n];
                    rng.fill_bytes(&mut data);
                    if let Some(o) = c.call(&mut cl, "enc", &data, "half") { c.call(&mut sv, "dec", &o, "half"); }
                    if let Some(o) = c.call(&mut sv, "enc", &data, "combined") { c.call(&mut cl, "dec", &o, "combined"); }
                }
            }
        }
    }
    // typed header helpers on boundary sizes / opcodes (bytes and state against the specification)
    {
        c.reset("stream-headers");
        if let Some((mut cl, mut sv)) = pair(&mut c, exp, "HDRS", rnd40(&mut rng), None, rng.gen()) {
            let sizes: Vec<u32> = if exp == "wrath" { vec![0, 0x7FFF, 0x8000, 0xFFFF, 0x10000, 0x7FFFFF] } else { vec![0, 0x7F, 0x80, 0x7FFF, 0x8000, 0xFFFF] };
            for (k, size) in sizes.iter().enumerate() {
                let op = OPCODES[k % OPCODES.len()];
                let via = if k % 2 == 0 { "combined" } else { "half" };
                if let Some(h) = c.enc_server_hdr(&mut sv, *size, op, via) {
                    c.sent = Some((*size, op as u32));
                    c.read_hdr(&mut cl, "server", &[Step::Data(h)], via);
                }
                let op32 = [0u32, 0xFFFF, 0x10000, 0x0100_0000, 0xFFFF_FFFF, 0x1DC][k % 6];
                if let Some(h) = c.enc_client_hdr(&mut cl, (*size & 0xFFFF) as u16, op32, via) {
                    c.sent = Some((*size & 0xFFFF, op32));
                    c.read_hdr(&mut sv, "client", &[Step::Data(h)], via);
                }
            }
        }
    }
    // every entry point inside one stream: headers read through fragmenting / interrupting readers and written through
    // fragmenting writers, the array calls, split / clone / (vanilla) unsplit after UNBALANCED traffic, and two
    // connections with different keys taking turns on this thread - the stream must stay the specification's stream
    for round in 0..(if thorough { 30 } else { 4 }) {
        c.reset("stream-entrypoints");
        let Some((mut cl, mut sv)) = pair(&mut c, exp, "ENTRY", rnd40(&mut rng), None, rng.gen()) else { continue };
        let Some((mut cl2, mut sv2)) = pair(&mut c, exp, "OTHER", rnd40(&mut rng), None, rng.gen()) else { continue };
        let small: [u32; 8] = [0, 1, 2, 3, 4, 5, 6, 0x100];
        for step in 0..(if thorough { 40 } else { 24 }) {
            if round % 2 == 1 {
                // unrelated calls into other modules on this thread (SRP logins, PIN, integrity, other header objects)
                crate::util::noise(step + round);
            }
            let size = if step < 8 { small[step] } else if exp == "wrath" && step % 5 == 0 { rng.gen_range(0x8000..=0x7FFFFF) } else { rng.gen_range(0..=0x7FFF) };
            let op = OPCODES[(step + round) % OPCODES.len()];
            let via = if step % 2 == 0 { "combined" } else { "half" };
            // server -> client
            let frag = |rng: &mut StdRng, bytes: &[u8]| -> Vec<Step> {
                let mut sc = vec![];
                let mut off = 0;
                while off < bytes.len() {
                    if rng.gen_range(0..3) == 0 { sc.push(Step::Intr); }
                    let n = rng.gen_range(1..=3usize).min(bytes.len() - off);
                    sc.push(Step::Data(bytes[off..off + n].to_vec()));
                    off += n;
                }
                sc
            };
            if step % 4 == 2 {
                // a writer that stops taking bytes (Ok(0)) or fails inside the header, on a CLONE of the sender: the
                // error is reported (WriteZero / the writer's kind), never swallowed
                let mut svc = c.clone_conn(&sv);
                let ws = if step % 8 == 2 { vec![Step::Accept(1 + step % 3), Step::Accept(0)] } else { vec![Step::Accept(2), Step::Err(ErrorKind::WouldBlock)] };
                c.write_hdr(&mut svc, "server", size, op as u32, &ws, via);
                c.drop_conn(&svc);
                let mut clc = c.clone_conn(&cl);
                c.write_hdr(&mut clc, "client", size & 0xFFFF, 0x1DC, &[Step::Accept(3), Step::Accept(0)], via);
                c.drop_conn(&clc);
            }
            let h = if step % 3 == 2 {
                // through the Write wrapper, the writer taking one to three bytes at a time
                let before = sv.enc_clone();
                let wire = wire_server(exp, size, op);
                let mut ws = vec![];
                let mut left = wire.len() + if exp == "wrath" && size > 0x7FFF { 0 } else { 0 };
                while left > 0 { let n = rng.gen_range(1..=3usize).min(left); ws.push(Step::Accept(n)); left -= n; }
                c.write_hdr(&mut sv, "server", size, op as u32, &ws, via);
                // what went to the wire = the raw operation on the pre-call clone
                before.map(|mut e| { let mut bb = wire.clone(); e.encrypt(&mut bb); bb })
            } else {
                c.enc_server_hdr(&mut sv, size, op, via)
            };
            if let Some(h) = h {
                c.sent = Some((size, op as u32));
                if step % 4 == 1 && h.len() == 4 && exp != "wrath" {
                    let mut a4 = [0u8; 4];
                    a4.copy_from_slice(&h);
                    c.dec_server_hdr(&mut cl, a4, via);
                } else {
                    // sometimes the reader first FAILS inside the header (end of stream or an error after j bytes): the
                    // decrypter is where it was, and the header is then read in full; a Wrath long header that failed
                    // exactly at its fifth byte is completed with that byte
                    let mut done = false;
                    if step % 3 == 1 {
                        let j = 1 + (step + round) % (h.len() - 1);
                        let mut part = vec![Step::Data(h[..j].to_vec())];
                        if step % 2 == 1 { part.push(Step::Err(ErrorKind::WouldBlock)); }
                        if !(exp == "wrath" && h.len() == 5 && j > 4) {
                            let res = c.read_hdr(&mut cl, "server", &part, via);
                            if exp == "wrath" && h.len() == 5 && j == 4 && res["kind"] == "err" {
                                c.sent = Some((size, op as u32));
                                c.wrath_complete(&mut cl, h[4], via);
                                done = true;
                            }
                        }
                        c.sent = Some((size, op as u32));
                    }
                    if !done {
                        let sc = frag(&mut rng, &h);
                        c.read_hdr(&mut cl, "server", &sc, via);
                    }
                }
            }
            // client -> server (small sizes included: nothing about a header's VALUE is checked by the cipher)
            let op32 = [0u32, 0xFFFF, 0x10000, 0x0100_0000, 0xFFFF_FFFF, 0x1DC, 0x00FF_0000][(step + round) % 7];
            if let Some(h) = c.enc_client_hdr(&mut cl, (size & 0xFFFF) as u16, op32, via) {
                c.sent = Some((size & 0xFFFF, op32));
                if step % 4 == 3 {
                    let mut a6 = [0u8; 6];
                    a6.copy_from_slice(&h);
                    c.dec_client_hdr(&mut sv, a6, via);
                } else {
                    if step % 3 == 2 {
                        let j = 1 + (step + round) % 5;
                        let mut part = vec![Step::Data(h[..j].to_vec())];
                        if step % 2 == 0 { part.push(Step::Err(ErrorKind::TimedOut)); }
                        c.read_hdr(&mut sv, "client", &part, via);
                        c.sent = Some((size & 0xFFFF, op32));
                    }
                    let sc = frag(&mut rng, &h);
                    c.read_hdr(&mut sv, "client", &sc, via);
                }
            }
            c.sent = None;
            // the other connection takes a turn (nothing may be shared between objects)
            if step % 3 == 0 {
                stream_dir(&mut c, &mut rng, &mut cl2, &mut sv2, 9, false);
                if let Some(h2) = c.enc_server_hdr(&mut sv2, if exp == "wrath" { 0x12345 } else { 0x1234 }, 0x1EE, "combined") {
                    c.read_hdr(&mut cl2, "server", &[Step::Data(h2)], "combined");
                }
            }
            // unbalanced extra traffic in one direction, then split / clone / unsplit
            if step % 6 == 4 {
                let extra = 1 + (step + 3 * round) % 7;
                stream_dir(&mut c, &mut rng, &mut sv, &mut cl, extra, false);
            }
            if step == 9 || step == 17 {
                c.split(&mut cl);
                c.split(&mut sv);
            }
            // an older snapshot refreshed with clone_from (same key, other carried state), and an object of ANOTHER
            // key overwritten with clone_from: both must then behave as the source does
            if step == 5 || step == 11 || step == 19 {
                let mut snap = c.clone_conn(&cl);
                stream_dir(&mut c, &mut rng, &mut cl, &mut sv, 5 + step, false);
                c.clone_from_conn(&mut snap, &cl);
                c.drop_conn(&cl);
                cl = snap;
                let mut other = c.clone_conn(&cl2);
                if cl.is_whole() != other.is_whole() { c.split(&mut other); }
                if cl.is_whole() == other.is_whole() {
                    c.clone_from_conn(&mut other, &cl);
                    let mut w = vec![0u8; 7];
                    rng.fill_bytes(&mut w);
                    c.call(&mut other, "enc", &w, "half");
                    c.call(&mut other, "dec", &w, "half");
                }
                c.drop_conn(&other);
            }
            if step == 13 || step == 21 {
                if exp == "vanilla" {
                    c.unsplit(&mut cl, None);
                    c.unsplit(&mut sv, None);
                } else {
                    let k = c.clone_conn(&cl);
                    c.drop_conn(&cl);
                    cl = k;
                }
            }
        }
    }
    // consecutive constructions (same thread) for keys that differ in exactly TWO bits, at every bit distance 1..319:
    // whatever identifies a key internally must depend on all of it, not on a fold in which two changes cancel
    {
        let basebits: Vec<usize> = if thorough { vec![0, 3, 64 + 7] } else { vec![(args.seed as usize * 5) % 8] };
        for b0 in basebits {
            let k0 = rnd40(&mut rng);
            for d in 1..320usize {
                if (b0 + d) >= 320 { break; }
                if d % 40 == 1 { c.reset("stream-keypairs"); }
                let mut k1 = k0;
                k1[b0 / 8] ^= 1 << (b0 % 8);
                k1[(b0 + d) / 8] ^= 1 << ((b0 + d) % 8);
                for key in [k0, k1] {
                    let Some((mut cl, mut sv)) = pair(&mut c, exp, "KEYPAIR", key, None, 7) else { continue };
                    let w = [0x11u8, 0x22, 0x33, 0x44, 0x55, 0x66];
                    if let Some(o) = c.call(&mut cl, "enc", &w, "half") { c.call(&mut sv, "dec", &o, "half"); }
                    if let Some(o) = c.call(&mut sv, "enc", &w, "half") { c.call(&mut cl, "dec", &o, "half"); }
                    c.drop_conn(&cl);
                    c.drop_conn(&sv);
                }
            }
        }
    }
    if exp == "wrath" {
        rc4_coincidence(&mut c, &mut rng);
    }
    {
        let k = rnd40(&mut rng);
        clone_from_same_position(&mut c, &mut rng, &[exp], k, if thorough { 8 } else { 4 });
    }
    // session keys whose DERIVED cipher key (HMAC-SHA1 under the protocol's direction constants) starts with a notable
    // byte pair - 03 FF (the classic weak RC4 key form), 00 00, FF FF, 00 01: found by search (input selection only;
    // the specification derives the key itself and judges every byte)
    if exp != "vanilla" {
        fn hmac_sha1(key: &[u8], msg: &[u8]) -> [u8; 20] {
            let mut k = [0u8; 64];
            k[..key.len()].copy_from_slice(key);
            let ipad: Vec<u8> = k.iter().map(|x| x ^ 0x36).collect();
            let opad: Vec<u8> = k.iter().map(|x| x ^ 0x5c).collect();
            let inner: [u8; 20] = Sha1::new().chain_update(&ipad).chain_update(msg).finalize().into();
            Sha1::new().chain_update(&opad).chain_update(inner).finalize().into()
        }
        let consts: Vec<[u8; 16]> = if exp == "wrath" {
            vec![[0xC2, 0xB3, 0x72, 0x3C, 0xC6, 0xAE, 0xD9, 0xB5, 0x34, 0x3C, 0x53, 0xEE, 0x2F, 0x43, 0x67, 0xCE],
                 [0xCC, 0x98, 0xAE, 0x04, 0xE8, 0x97, 0xEA, 0xCA, 0x12, 0xDD, 0xC0, 0x93, 0x42, 0x91, 0x53, 0x57]]
        } else {
            vec![[0x38, 0xA7, 0x83, 0x15, 0xF8, 0x92, 0x25, 0x30, 0x71, 0x98, 0x67, 0xB1, 0x8C, 0x04, 0xE2, 0xAA]]
        };
        let pats: Vec<[u8; 2]> = if thorough { vec![[3, 255], [0, 0], [255, 255], [0, 1], [1, 0], [255, 0], [3, 253], [4, 255]] } else { vec![[3, 255], [0, 0], [255, 255]] };
        c.reset("stream-derived-key-patterns");
        for cst in &consts {
            for pat in &pats {
                let mut k = rnd40(&mut rng);
                let mut found = false;
                for t in 0..400_000u32 {
                    k[0..4].copy_from_slice(&t.to_le_bytes());
                    let d = hmac_sha1(cst, &k);
                    if d[0] == pat[0] && d[1] == pat[1] { found = true; break; }
                }
                if !found { continue; }
                let Some((mut cl, mut sv)) = pair(&mut c, exp, "DERIVED", k, None, 5) else { continue };
                stream_dir(&mut c, &mut rng, &mut cl, &mut sv, 40, false);
                stream_dir(&mut c, &mut rng, &mut sv, &mut cl, 40, false);
                c.drop_conn(&cl);
                c.drop_conn(&sv);
            }
        }
    }
    // consecutive constructions for keys that differ in ONE byte, at every index 0..39 (both orders), in all odd-indexed or
    // all even-indexed bytes, in one half only
    {
        c.reset("stream-keybytes");
        let k0 = rnd40(&mut rng);
        let mut variants: Vec<[u8; 40]> = vec![];
        for i in 0..40usize { let mut k = k0; k[i] ^= 0x80 >> (i % 8); variants.push(k); }
        let mut k = k0; for i in (1..40).step_by(2) { k[i] = !k[i]; } variants.push(k);
        let mut k = k0; for i in (0..40).step_by(2) { k[i] = !k[i]; } variants.push(k);
        let mut k = k0; for x in k.iter_mut().skip(20) { *x ^= 0x11; } variants.push(k);
        let mut k = k0; for x in k.iter_mut().take(20) { *x ^= 0x11; } variants.push(k);
        for (vi, kv) in variants.iter().enumerate() {
            let order = if vi % 2 == 0 { [k0, *kv] } else { [*kv, k0] };
            for key in order {
                let Some((mut cl, mut sv)) = pair(&mut c, exp, "KEYBYTE", key, None, 9) else { continue };
                let w = [0xA1u8, 0xB2, 0xC3, 0xD4, 0xE5];
                if let Some(o) = c.call(&mut cl, "enc", &w, "half") { c.call(&mut sv, "dec", &o, "half"); }
                if let Some(o) = c.call(&mut sv, "enc", &w, "half") { c.call(&mut cl, "dec", &o, "half"); }
                c.drop_conn(&cl);
                c.drop_conn(&sv);
            }
        }
    }
    // many keys, short traffic: key derivation of both halves on both sides
    let nkeys = args.n.unwrap_or(if thorough { 3000 } else { 150 });
    let mut base = rnd40(&mut rng);
    for k in 0..nkeys {
        if k % 50 == 0 {
            c.reset("stream-keys");
        }
        let key = match k % 7 {
            0 => [0u8; 40],
            1 => [0xff; 40],
            2 => {
                // keys differing in one bit from the previous base
                let mut x = base;
                x[(k as usize / 7) % 40] ^= 1 << (k % 8);
                x
            }
            _ => {
                base = rnd40(&mut rng);
                base
            }
        };
        if k % 6 == 5 {
            // a session whose key shares the first (or the last) 20 bytes, created immediately before
            let mut kd = key;
            if k % 12 == 5 { for x in kd.iter_mut().skip(20) { *x = !*x; } } else { for x in kd.iter_mut().take(20) { *x = !*x; } }
            if let Some((d1, d2)) = pair(&mut c, exp, "KEYS", kd, None, rng.gen()) {
                c.drop_conn(&d1);
                c.drop_conn(&d2);
            }
        }
        let Some((mut cl, mut sv)) = pair(&mut c, exp, "KEYS", key, None, rng.gen()) else { continue };
        stream_dir(&mut c, &mut rng, &mut cl, &mut sv, 70, false);
        stream_dir(&mut c, &mut rng, &mut sv, &mut cl, 70, false);
        // hostile / garbage input to the decrypters in any amount and order (C14): still orderly
        let mut junk = vec![0u8; rng.gen_range(0..64)];
        rng.fill_bytes(&mut junk);
        c.call(&mut cl, "dec", &junk, "half");
        c.call(&mut sv, "dec", &junk, "combined");
        c.drop_conn(&cl);
        c.drop_conn(&sv);
    }
    c.tr.finish()
}

/// C07 / C08: one test per model transition: every cipher state (i, p) x every input byte
pub fn run_sweep(args: &Args) -> (u64, u64) {
    use wow_srp::tbc_header as tbc;
    use wow_srp::vanilla_header as van;
    let mut c = C::new(Tr::create(&args.out));
    let mut rng = StdRng::seed_from_u64(args.seed);
    let thorough = args.tier == "thorough";
    let exp: &'static str = if args.extra.first().map(|s| s.as_str()) == Some("tbc") { "tbc" } else { "vanilla" };
    let klen = if exp == "vanilla" { 40 } else { 20 };
    let positions: Vec<usize> = if thorough { (0..klen).collect() } else { vec![0, 1, klen / 2 - 1, klen / 2, klen - 2, klen - 1] };
    let nkeys = if thorough { 2 } else { 1 };
    for _ in 0..nkeys {
        c.reset("sweep");
        let key = rnd40(&mut rng);
        let Some((cl, _sv)) = pair(&mut c, exp, "SWEEP", key, None, 7) else { continue };
        let (mut e0, mut d0) = match cl.st.clone() {
            State::Whole(Cr::V(x)) => { let (e, d) = x.split(); (En::V(e), De::V(d)) }
            State::Whole(Cr::T(x)) => { let (e, d) = x.split(); (En::T(e), De::T(d)) }
            _ => unreachable!(),
        };
        let _ = (&mut e0, &mut d0);
        for &i in &positions {
            c.tr.reset("sweep-position");
            // bring clones to position i (i == 0: a whole key period, so that p is arbitrary as well)
            let lead = if i == 0 { klen } else { i };
            for p in 0..256usize {
                // ---- encrypter in state (i, p): lead-1 arbitrary bytes, then the byte whose ciphertext is p
                let mut e = e0.clone();
                let mut pre = vec![0u8; lead - 1];
                rng.fill_bytes(&mut pre);
                e.encrypt(&mut pre);
                let mut found = None;
                for x in 0..=255u8 {
                    let mut t = e.clone();
                    let mut one = [x];
                    t.encrypt(&mut one);
                    if one[0] as usize == p {
                        found = Some(t);
                        break;
                    }
                }
                let Some(es) = found else { eprintln!("harness: encrypter state ({}, {}) unreachable", i, p); std::process::exit(2) };
                let st = es.state();
                let (mut outs, mut ni, mut np) = (vec![0u8; 256], vec![0u64; 256], vec![0u64; 256]);
                let mut shown = true;
                for x in 0..256usize {
                    let mut t = es.clone();
                    let mut one = [x as u8];
                    t.encrypt(&mut one);
                    outs[x] = one[0];
                    let s2 = t.state();
                    match (s2["i"].as_u64(), s2["p"].as_u64()) {
                        (Some(a), Some(b2)) => { ni[x] = a; np[x] = b2; }
                        _ => shown = false,
                    }
                }
                // constructed state: `lead` bytes processed, carried byte = the last ciphertext byte (= p)
                let mut ev = json!({"ev": "StateSweep", "exp": exp, "dir": "enc", "K": b(&key), "st": st, "cst": {"i": lead % klen, "p": p}, "out": b(&outs)});
                if shown { ev["ni"] = json!(ni); ev["np"] = json!(np); }
                c.tr.ev(ev);
                // ---- decrypter in state (i, p): previous ciphertext byte is simply the last input
                let mut d = d0.clone();
                let mut pre = vec![0u8; lead];
                rng.fill_bytes(&mut pre);
                pre[lead - 1] = p as u8;
                d.decrypt(&mut pre);
                let st = d.state();
                let mut shown = true;
                for x in 0..256usize {
                    let mut t = d.clone();
                    let mut one = [x as u8];
                    t.decrypt(&mut one);
                    outs[x] = one[0];
                    let s2 = t.state();
                    match (s2["i"].as_u64(), s2["p"].as_u64()) {
                        (Some(a), Some(b2)) => { ni[x] = a; np[x] = b2; }
                        _ => shown = false,
                    }
                }
                let mut ev = json!({"ev": "StateSweep", "exp": exp, "dir": "dec", "K": b(&key), "st": st, "cst": {"i": lead % klen, "p": p}, "out": b(&outs)});
                if shown { ev["ni"] = json!(ni); ev["np"] = json!(np); }
                c.tr.ev(ev);
            }
        }
        let _: Option<(van::HeaderCrypto, tbc::HeaderCrypto)> = None;
    }
    c.tr.finish()
}

const SIZES: [u32; 16] = [0, 1, 0x7F, 0x80, 0xFF, 0x100, 0x7FFE, 0x7FFF, 0x8000, 0x8001, 0xFFFF, 0x10000, 0x3FFFFF, 0x400000, 0x7FFFFE, 0x7FFFFF];
const OPCODES: [u16; 5] = [0, 0xFF, 0x100, 0x8000, 0xFFFF];

fn wrath_deliver(c: &mut C, rng: &mut StdRng, cl: &mut Conn, bytes: &[u8], path: u32, sent: (u32, u16)) {
    // sizes above 0x7FFFFF are outside C10's quantifier: no `sent` cross reference for them (the decoder is
    // still validated against the specification's decode of the bytes)
    c.sent = if sent.0 <= 0x7F_FFFF { Some((sent.0, sent.1 as u32)) } else { None };
    let via = if rng.gen() { "combined" } else { "half" };
    match path % 3 {
        0 => {
            // the read-based call, whole header in one piece
            c.read_hdr(cl, "server", &[Step::Data(bytes.to_vec())], via);
        }
        1 => {
            // the two-step calls
            let mut a4 = [0u8; 4];
            a4.copy_from_slice(&bytes[..4]);
            if let Some(None) = c.wrath_attempt(cl, a4, via) {
                if bytes.len() == 5 {
                    // sometimes a clone is taken between the two steps: the copy must complete the header just as well
                    if path % 2 == 1 {
                        let mut k = c.clone_conn(cl);
                        c.sent = if sent.0 <= 0x7F_FFFF { Some((sent.0, sent.1 as u32)) } else { None };
                        c.is_clone = true;
                        c.wrath_complete(&mut k, bytes[4], "half");
                        c.is_clone = false;
                        c.drop_conn(&k);
                        c.sent = if sent.0 <= 0x7F_FFFF { Some((sent.0, sent.1 as u32)) } else { None };
                    }
                    // sometimes the object is SPLIT between the two steps: the decrypter half completes the header
                    static TURN: std::sync::atomic::AtomicUsize = std::sync::atomic::AtomicUsize::new(0);
                    let turn = TURN.fetch_add(1, std::sync::atomic::Ordering::Relaxed);
                    if (path % 5 == 2 || turn % 4 == 1) && cl.is_whole() {
                        c.split(cl);
                        c.wrath_complete(cl, bytes[4], "half");
                    } else if turn % 3 == 0 {
                        // the second step through the OTHER access path (combined object vs its decrypter())
                        c.wrath_complete(cl, bytes[4], if via == "combined" { "half" } else { "combined" });
                    } else {
                        c.wrath_complete(cl, bytes[4], via);
                    }
                }
            }
        }
        2 if bytes.len() == 5 && path % 2 == 0 => {
            // the read-based call fails exactly between the fourth and the fifth byte; the header is then completed
            // with decrypt_large_server_header
            let res = c.read_hdr(cl, "server", &[Step::Data(bytes[..4].to_vec()), Step::Err(ErrorKind::WouldBlock)], via);
            c.sent = if sent.0 <= 0x7F_FFFF { Some((sent.0, sent.1 as u32)) } else { None };
            if res["kind"] == "err" {
                c.wrath_complete(cl, bytes[4], via);
            }
        }
        _ => {
            // read-based call with byte-wise fragments and interruptions
            let mut s = vec![];
            for x in bytes {
                if rng.gen_range(0..4) == 0 {
                    s.push(Step::Intr);
                }
                s.push(Step::Data(vec![*x]));
            }
            c.read_hdr(cl, "server", &s, via);
        }
    }
}

/// C10: sequences of short and long Wrath server headers through both client decoding paths
pub fn run_wrathhdr(args: &Args) -> (u64, u64) {
    let mut c = C::new(Tr::create(&args.out));
    let mut rng = StdRng::seed_from_u64(args.seed);
    let thorough = args.tier == "thorough";
    let scen: Vec<Value> = args.scen.as_ref().map(|p| read_ndjson(p)).unwrap_or_default();
    let key = rnd40(&mut rng);
    c.reset("wrathhdr");
    let Some((mut cl0, mut sv0)) = pair(&mut c, "wrath", "HDR", key, None, 99) else { return c.tr.finish() };
    // TLC-generated sequences (each on clones of the same fresh pair)
    for (k, s) in scen.iter().enumerate() {
        if k % 100 == 99 {
            c.reset("wrathhdr");
            let Some((a, b2)) = pair(&mut c, "wrath", "HDR", key, None, 99) else { break };
            cl0 = a;
            sv0 = b2;
        }
        let mut cl = c.clone_conn(&cl0);
        let mut sv = c.clone_conn(&sv0);
        if k % 2 == 1 {
            c.split(&mut cl);
            c.split(&mut sv);
        }
        for h in s["seq"].as_array().unwrap() {
            let size = h["size"].as_u64().unwrap() as u32;
            let op = h["opcode"].as_u64().unwrap() as u16;
            let path = h["path"].as_u64().unwrap() as u32;
            let via = if k % 3 == 0 { "combined" } else { "half" };
            let Some(bytes) = c.enc_server_hdr(&mut sv, size, op, via) else { break };
            wrath_deliver(&mut c, &mut rng, &mut cl, &bytes, path, (size, op));
        }
        c.drop_conn(&cl);
        c.drop_conn(&sv);
    }
    // long random sequences mixing short and long headers
    for r in 0..(if thorough { 40 } else { 3 }) {
        c.reset("wrathhdr-long");
        let Some((mut cl, mut sv)) = pair(&mut c, "wrath", "HDR", rnd40(&mut rng), None, r) else { continue };
        for _ in 0..200 {
            let size = match rng.gen_range(0..4) {
                0 => SIZES[rng.gen_range(0..SIZES.len())],
                1 => rng.gen_range(0..=0x7FFF),
                2 => rng.gen_range(0x8000..=0x7FFFFF),
                _ => rng.gen_range(0..=0x7FFFFF),
            };
            let op = if rng.gen() { OPCODES[rng.gen_range(0..OPCODES.len())] } else { rng.gen() };
            let Some(bytes) = c.enc_server_hdr(&mut sv, size, op, "combined") else { break };
            let p = rng.gen();
            wrath_deliver(&mut c, &mut rng, &mut cl, &bytes, p, (size, op));
        }
    }
    // clone_from between two copies of ONE connection at the same stream position: the source is between the two steps of
    // a long header, the destination saw the same four bytes through the raw decrypt (equal cipher state, other parked
    // bytes) - the destination then completes the header exactly as the source would
    {
        c.reset("wrathhdr-clone-from-pending");
        if let Some((cl0, mut sv)) = pair(&mut c, "wrath", "PENDING", rnd40(&mut rng), None, 41) {
            for k in 0..(if thorough { 12u32 } else { 4 }) {
                let size = 0x1_2345 + k * 0x1_0101;
                let Some(h) = c.enc_server_hdr(&mut sv, size, 0x0302, "combined") else { break };
                let mut src = c.clone_conn(&cl0);
                let mut dst = c.clone_conn(&cl0);
                // (all clones start where cl0 is: replay the earlier headers of this loop on both)
                let mut a4 = [0u8; 4];
                a4.copy_from_slice(&h[..4]);
                if k % 2 == 1 { c.split(&mut src); c.split(&mut dst); }
                // an earlier long header leaves other parked bytes in dst
                c.sent = None;
                c.wrath_attempt(&mut src, a4, "half");
                c.call(&mut dst, "dec", &h[..4], "half");
                c.clone_from_conn(&mut dst, &src);
                c.sent = Some((size, 0x0302));
                c.wrath_complete(&mut dst, h[4], "half");
                c.sent = Some((size, 0x0302));
                c.wrath_complete(&mut src, h[4], "half");
                c.sent = None;
                c.drop_conn(&src);
                c.drop_conn(&dst);
                // keep the server's peer in step: one copy that follows the whole stream
                break;
            }
        }
        // several rounds, each on a fresh pair (the loop above stops after one header per pair)
        for k in 1..(if thorough { 12u32 } else { 4 }) {
            let Some((cl0, mut sv)) = pair(&mut c, "wrath", "PENDING", rnd40(&mut rng), None, 41 + k) else { continue };
            let size = 0x1_2345 + k * 0x1_0101;
            let Some(h) = c.enc_server_hdr(&mut sv, size, 0x0302, "combined") else { continue };
            let mut src = c.clone_conn(&cl0);
            let mut dst = c.clone_conn(&cl0);
            if k % 2 == 1 { c.split(&mut src); c.split(&mut dst); }
            let mut a4 = [0u8; 4];
            a4.copy_from_slice(&h[..4]);
            c.wrath_attempt(&mut src, a4, "half");
            c.call(&mut dst, "dec", &h[..4], "half");
            c.clone_from_conn(&mut dst, &src);
            c.sent = Some((size, 0x0302));
            c.wrath_complete(&mut dst, h[4], "half");
            c.sent = Some((size, 0x0302));
            c.wrath_complete(&mut src, h[4], "half");
            c.sent = None;
        }
    }
    // consecutive headers with the SAME opcode whose sizes are related: equal modulo 2^16 / 2^15 / 2^8, the previous
    // size again, short and long forms alternating - each header is encoded from its own size, nothing is reused
    {
        c.reset("wrathhdr-related-sizes");
        if let Some((mut cl, mut sv)) = pair(&mut c, "wrath", "RELSIZE", rnd40(&mut rng), None, 31) {
            let bases: Vec<u32> = if thorough { vec![5, 0x7FFF, 0x1234, 0x00FF, 0x8000, 0x0100, 0x4000, 0x7F00] } else { vec![5, 0x7FFF, 0x1234] };
            for (bi, base) in bases.iter().enumerate() {
                let op = OPCODES[bi % OPCODES.len()];
                for size in [*base, base + 0x1_0000, *base, base ^ 0x8000, base + 0x2_0000, base & 0xFF, base + 0x7F_0000, *base, (base + 0x100) & 0x7F_FFFF, base + 0x1_0000] {
                    let via = if size % 2 == 0 { "combined" } else { "half" };
                    let Some(bytes) = c.enc_server_hdr(&mut sv, size, op, via) else { break };
                    wrath_deliver(&mut c, &mut rng, &mut cl, &bytes, bi as u32, (size, op));
                }
                // the same through the Write wrapper
                for size in [*base, base + 0x1_0000, *base] {
                    let before = sv.enc_clone();
                    let wire = wire_server("wrath", size, op);
                    c.write_hdr(&mut sv, "server", size, op as u32, &[Step::Accept(2), Step::Accept(8)], "half");
                    if let Some(mut e) = before {
                        let mut bb = wire.clone();
                        e.encrypt(&mut bb);
                        wrath_deliver(&mut c, &mut rng, &mut cl, &bb, 0, (size, op));
                    }
                }
            }
        }
    }
    // several connections served by ONE thread, their long headers interleaved at the two-step point (A's first four
    // bytes, B's first four bytes, A's fifth, B's fifth; a short header of C in between) - nothing is shared
    for r in 0..(if thorough { 20 } else { 3 }) {
        c.reset("wrathhdr-interleaved");
        let mut conns = vec![];
        for k in 0..3u32 {
            if let Some(p) = pair(&mut c, "wrath", "MULTI", rnd40(&mut rng), None, k + r) { conns.push(p); }
        }
        if conns.len() < 3 { continue; }
        for step in 0..12u32 {
            let mut pending: Vec<(usize, Vec<u8>, (u32, u16))> = vec![];
            for k in 0..3usize {
                let long = (step as usize + k) % 3 != 2;
                let size = if long { 0x8000 + rng.gen_range(0..0x7F_8000u32) } else { rng.gen_range(0..0x8000u32) };
                let op: u16 = rng.gen();
                let Some(bytes) = c.enc_server_hdr(&mut conns[k].1, size, op, "combined") else { continue };
                let mut a4 = [0u8; 4];
                a4.copy_from_slice(&bytes[..4]);
                c.sent = Some((size, op as u32));
                let via = if (step as usize + k) % 2 == 0 { "combined" } else { "half" };
                if let Some(None) = c.wrath_attempt(&mut conns[k].0, a4, via) {
                    pending.push((k, bytes, (size, op)));
                }
            }
            // complete in the same or in reverse order
            if step % 2 == 1 { pending.reverse(); }
            for (k, bytes, sent) in pending {
                if bytes.len() == 5 {
                    c.sent = Some((sent.0, sent.1 as u32));
                    c.wrath_complete(&mut conns[k].0, bytes[4], "half");
                }
            }
            c.sent = None;
        }
    }
    // beyond the listed properties (named deviation of the specification): sizes above 0x7FFFFF lose their high byte
    {
        c.reset("wrathhdr-wide");
        if let Some((mut cl, mut sv)) = pair(&mut c, "wrath", "WIDE", rnd40(&mut rng), None, 77) {
            for size in [0x80_0000u32, 0x80_0001, 0xFF_FFFF, 0x100_0000, 0x7FFF_FFFF, 0x1234_5678, 0x0180_0000] {
                let Some(bytes) = c.enc_server_hdr(&mut sv, size, 0x1EE, "half") else { break };
                wrath_deliver(&mut c, &mut rng, &mut cl, &bytes, size, (size, 0x1EE));
            }
        }
    }
    // exhaustive size sweep (thorough): all 2^23 sizes, logged as block digests that TLC recomputes
    if thorough || args.extra.iter().any(|x| x == "sizesweep") {
        let blocks: Vec<u32> = if thorough { (0..2048).collect() } else { vec![0, 7, 8, 1023, 1024, 2047] };
        let ops: Vec<u16> = vec![0x1EE];
        c.reset("wrathhdr-sizesweep");
        let Some((clw, svw)) = pair(&mut c, "wrath", "SWEEP", key, None, 5) else { return c.tr.finish() };
        let (State::Whole(Cr::WC(clw)), State::Whole(Cr::WS(svw))) = (clw.st, svw.st) else { unreachable!() };
        let (enc0, _) = svw.split();
        let (_, dec0) = clw.split();
        for op in ops {
            for blk in &blocks {
                if blk % 16 == 0 && *blk > 0 {
                    c.reset("wrathhdr-sizesweep");
                }
                let mut hasher = Sha1::new();
                let mut panicked = false;
                for size in (blk * 4096)..((blk + 1) * 4096) {
                    let r = guard(|| {
                        let mut e = enc0.clone();
                        let mut ks = enc0.clone();
                        let ct = e.encrypt_server_header(size, op).to_vec();
                        let mut z = vec![0u8; ct.len()];
                        ks.encrypt(&mut z);
                        let plain: Vec<u8> = ct.iter().zip(z.iter()).map(|(a, b2)| a ^ b2).collect();
                        // path A: read-based; path B: attempt + one more byte
                        let mut da = dec0.clone();
                        let ha = da.read_and_decrypt_server_header(&mut &ct[..]).map(|h| (h.size, h.opcode)).unwrap_or((0xFFFF_FFFF, 0));
                        let mut db = dec0.clone();
                        let mut a4 = [0u8; 4];
                        a4.copy_from_slice(&ct[..4]);
                        let hb = match db.attempt_decrypt_server_header(a4) {
                            wr::WrathServerAttempt::Header(h) => (h.size, h.opcode, ct.len() == 4),
                            wr::WrathServerAttempt::AdditionalByteRequired => {
                                if ct.len() == 5 {
                                    let h = db.decrypt_large_server_header(ct[4]);
                                    (h.size, h.opcode, true)
                                } else {
                                    (0xFFFF_FFFF, 0, false)
                                }
                            }
                        };
                        (plain, ha, hb)
                    });
                    match r {
                        Ok((plain, ha, hb)) => {
                            hasher.update(&plain);
                            hasher.update(&ha.0.to_be_bytes()[1..]);
                            hasher.update(&ha.1.to_le_bytes());
                            hasher.update(&hb.0.to_be_bytes()[1..]);
                            hasher.update(&hb.1.to_le_bytes());
                            hasher.update([hb.2 as u8]);
                        }
                        Err(_) => panicked = true,
                    }
                }
                let dg: [u8; 20] = hasher.finalize().into();
                c.tr.ev(json!({"ev": "SizeSweep", "opcode": op, "block": blk, "digest": b(&dg), "panicked": panicked}));
            }
        }
    }
    // long and short headers at every offset around keystream block edges, read-based and two-step (see alignment_section)
    alignment_section(&mut c, &mut rng, &["wrath"]);
    c.tr.finish()
}

fn build_script(bytes: &[u8], tmpl: &Value) -> Vec<Step> {
    // tmpl: {frags:[n..], intr:[k..] (insert Interrupted before fragment index k), fail: {at: bytes, kind} | null}
    let frags: Vec<usize> = tmpl["frags"].as_array().unwrap().iter().map(|x| x.as_u64().unwrap() as usize).collect();
    let intr: Vec<usize> = tmpl["intr"].as_array().unwrap().iter().map(|x| x.as_u64().unwrap() as usize).collect();
    let fail_at = tmpl["fail"].get("at").and_then(|x| x.as_u64()).map(|x| x as usize);
    let fail_kind = tmpl["fail"].get("kind").and_then(|x| x.as_str()).unwrap_or("Other").to_string();
    let mut steps = vec![];
    let mut off = 0usize;
    for (k, f) in frags.iter().enumerate() {
        if intr.contains(&k) {
            steps.push(Step::Intr);
        }
        let mut n = *f;
        if let Some(fa) = fail_at {
            if off + n > fa {
                n = fa - off;
            }
        }
        if off + n > bytes.len() {
            n = bytes.len() - off;
        }
        if n > 0 {
            steps.push(Step::Data(bytes[off..off + n].to_vec()));
            off += n;
        }
        if let Some(fa) = fail_at {
            if off >= fa {
                break;
            }
        }
        if off >= bytes.len() {
            break;
        }
    }
    if let Some(_fa) = fail_at {
        if fail_kind == "UnexpectedEof" {
            // short input: the script simply ends
        } else {
            steps.push(Step::Err(kind_from(&fail_kind)));
        }
    } else if intr.contains(&frags.len()) {
        steps.push(Step::Intr);
    }
    steps
}

fn build_wscript(len: usize, tmpl: &Value) -> Vec<Step> {
    let frags: Vec<usize> = tmpl["frags"].as_array().unwrap().iter().map(|x| x.as_u64().unwrap() as usize).collect();
    let intr: Vec<usize> = tmpl["intr"].as_array().unwrap().iter().map(|x| x.as_u64().unwrap() as usize).collect();
    let fail_at = tmpl["fail"].get("at").and_then(|x| x.as_u64()).map(|x| x as usize);
    let fail_kind = tmpl["fail"].get("kind").and_then(|x| x.as_str()).unwrap_or("Other").to_string();
    let mut steps = vec![];
    let mut off = 0usize;
    for (k, f) in frags.iter().enumerate() {
        if intr.contains(&k) {
            steps.push(Step::Intr);
        }
        let mut n = *f;
        if let Some(fa) = fail_at {
            if off + n > fa {
                n = fa - off;
            }
        }
        if n > 0 {
            steps.push(Step::Accept(n));
            off += n;
        }
        if let Some(fa) = fail_at {
            if off >= fa {
                break;
            }
        }
        if off >= len {
            break;
        }
    }
    if fail_at.is_some() {
        if fail_kind == "WriteZero" {
            steps.push(Step::Accept(0));
        } else {
            steps.push(Step::Err(kind_from(&fail_kind)));
        }
    }
    steps
}

/// C11: every header kind x fragmentation x interruption x failure offset x error kind, read and write,
/// from TLC-generated templates; plus agreement of all entry points.
/// Headers at every alignment against the key / keystream blocks (shared by the C11, C10 and C14 drivers).
pub fn alignment_section(c: &mut C, rng: &mut StdRng, exps: &[&'static str]) {
    // EVERY ALIGNMENT of a header against the key: each direction is first advanced by p raw bytes, p = every key position
    // (Vanilla 0..39, TBC 0..19; Wrath a few), so that headers start at, straddle and end on the wrap of the key; then the
    // four header operations (encrypt / decrypt x server / client header) run once through the typed helpers and once
    // through the Write / Read wrappers, on clones of the same state, alternately on the combined object and a half
    for exp in exps.iter().copied() {
        // (Wrath: RC4 has no key position; offsets around 256, 512, 1024 and 65 536 stand in for block edges of any batching)
        let positions: Vec<usize> = match exp {
            "vanilla" => (0..40).collect(),
            "tbc" => (0..20).collect(),
            _ => vec![0, 1, 3, 250, 251, 252, 253, 254, 255, 256, 257, 507, 508, 509, 1019, 1020, 1021, 65531, 65532, 65533],
        };
        let key = rnd40(rng);
        for (pi, p) in positions.into_iter().enumerate() {
            if pi % 10 == 0 { c.reset("hdrio-alignment"); }
            let Some((mut cl, mut sv)) = pair(c, exp, "ALIGN", key, None, 17) else { continue };
            if p > 0 {
                let mut w = vec![0u8; p];
                rng.fill_bytes(&mut w);
                if let Some(o) = c.call(&mut sv, "enc", &w, "combined") { c.call(&mut cl, "dec", &o, "combined"); }
                if let Some(o) = c.call(&mut cl, "enc", &w, "combined") { c.call(&mut sv, "dec", &o, "combined"); }
            }
            // (Wrath: a long AND a short header at every offset)
            let sizes: Vec<u32> = if exp == "wrath" { vec![[0x1_2345u32, 0x7F_FFFF, 0x8000][pi % 3], [0x7FFFu32, 0x4][pi % 2]] } else { vec![[0x0123u32, 0x7FFF, 0x4, 0x00FF][p % 4]] };
            let op: u16 = OPCODES[p % OPCODES.len()];
            let op32: u32 = [0x1DCu32, 0xFFFF_FFFF, 0x0001_0000, 0x3][p % 4];
            for (set, size) in sizes.iter().flat_map(|z| [(0usize, *z), (1usize, *z)]) {
                let mut cl2 = c.clone_conn(&cl);
                let mut sv2 = c.clone_conn(&sv);
                let via = if (p + set) % 2 == 0 { "combined" } else { "half" };
                if via == "half" { c.split(&mut cl2); c.split(&mut sv2); }
                if set == 0 {
                    // typed helpers
                    if let Some(ct) = c.enc_server_hdr(&mut sv2, size, op, via) {
                        c.sent = Some((size, op as u32));
                        if exp == "wrath" {
                            // the two-step path: four bytes, then (long form) the fifth
                            let mut a = [0u8; 4]; a.copy_from_slice(&ct[..4]);
                            if let Some(None) = c.wrath_attempt(&mut cl2, a, via) { if ct.len() > 4 { c.wrath_complete(&mut cl2, ct[4], via); } }
                        }
                        else { let mut a = [0u8; 4]; a.copy_from_slice(&ct[..4]); c.dec_server_hdr(&mut cl2, a, via); }
                    }
                    if let Some(ct) = c.enc_client_hdr(&mut cl2, size as u16, op32, via) {
                        c.sent = Some((size & 0xFFFF, op32));
                        let mut a = [0u8; 6]; a.copy_from_slice(&ct[..6]);
                        c.dec_client_hdr(&mut sv2, a, via);
                    }
                } else {
                    // Write / Read wrappers (the ciphertext the peer reads is the raw operation on a clone taken before)
                    let before = sv2.enc_clone();
                    c.write_hdr(&mut sv2, "server", size, op as u32, &[Step::Accept(2), Step::Accept(9)], via);
                    if let Some(mut e) = before {
                        let mut ct = wire_server(exp, size, op);
                        e.encrypt(&mut ct);
                        c.sent = Some((size, op as u32));
                        c.read_hdr(&mut cl2, "server", &[Step::Data(ct[..1].to_vec()), Step::Data(ct[1..].to_vec())], via);
                    }
                    let before = cl2.enc_clone();
                    c.write_hdr(&mut cl2, "client", size & 0xFFFF, op32, &[Step::Accept(9)], via);
                    if let Some(mut e) = before {
                        let mut ct = wire_client(size as u16, op32);
                        e.encrypt(&mut ct);
                        c.sent = Some((size & 0xFFFF, op32));
                        c.read_hdr(&mut sv2, "client", &[Step::Data(ct)], via);
                    }
                }
                c.sent = None;
                // the streams go on in step afterwards
                let w = [0x5Au8, 0xA5, 0x00];
                if let Some(o) = c.call(&mut sv2, "enc", &w, via) { c.call(&mut cl2, "dec", &o, via); }
                if let Some(o) = c.call(&mut cl2, "enc", &w, via) { c.call(&mut sv2, "dec", &o, via); }
            }
        }
    }
}

pub fn run_hdrio(args: &Args) -> (u64, u64) {
    let mut c = C::new(Tr::create(&args.out));
    let mut rng = StdRng::seed_from_u64(args.seed);
    let scen = read_ndjson(args.scen.as_ref().expect("--scen templates"));
    let key = rnd40(&mut rng);
    let mut bases: Vec<(Conn, Conn)> = vec![];
    let mut fresh = |c: &mut C, rng: &mut StdRng, bases: &mut Vec<(Conn, Conn)>| {
        c.reset("hdrio");
        bases.clear();
        for exp in EXPS {
            let (mut cl, mut sv) = pair(c, exp, "IO", key, None, 3).expect("pair");
            // move off the initial state
            let mut w = vec![0u8; rng.gen_range(1..50)];
            rng.fill_bytes(&mut w);
            if let Some(o) = c.call(&mut cl, "enc", &w, "combined") { c.call(&mut sv, "dec", &o, "combined"); }
            if let Some(o) = c.call(&mut sv, "enc", &w, "combined") { c.call(&mut cl, "dec", &o, "combined"); }
            bases.push((cl, sv));
        }
    };
    fresh(&mut c, &mut rng, &mut bases);
    for (k, t) in scen.iter().enumerate() {
        if k % 60 == 59 {
            fresh(&mut c, &mut rng, &mut bases);
        }
        let exp_i = match t["exp"].as_str().unwrap() { "vanilla" => 0, "tbc" => 1, _ => 2 };
        let kind = t["kind"].as_str().unwrap(); // "server" | "client" | "serverLong" (wrath 5 bytes)
        let (cl0, sv0) = &bases[exp_i];
        let mut cl = c.clone_conn(cl0);
        let mut sv = c.clone_conn(sv0);
        if k % 2 == 1 {
            c.split(&mut cl);
            c.split(&mut sv);
        }
        let via = if k % 3 == 0 { "combined" } else { "half" };
        let size: u32 = match kind { "serverLong" => [0x8000u32, 0x12345, 0x7FFFFF][k % 3], _ => [0u32, 12, 0x7FFF, 0x1234][k % 4] };
        let op16: u16 = OPCODES[k % OPCODES.len()];
        let op32: u32 = [0u32, 0x1DC, 0xFFFF, 0x10000, 0xFFFF_FFFF][k % 5];
        if t["side"] == "read" {
            // the peer produces the ciphertext; the receiver reads it through the scripted reader
            let (bytes, rkind, receiver, _sender): (Vec<u8>, &str, &mut Conn, ()) = if kind == "client" {
                let Some(bytes) = c.enc_client_hdr(&mut cl, size as u16, op32, via) else { continue };
                (bytes, "client", &mut sv, ())
            } else {
                let Some(bytes) = c.enc_server_hdr(&mut sv, size, op16, via) else { continue };
                (bytes, "server", &mut cl, ())
            };
            let script = build_script(&bytes, t);
            let sent_hdr = if kind == "client" { (size & 0xFFFF, op32) } else { (size, op16 as u32) };
            c.sent = Some(sent_hdr);
            let res = c.read_hdr(receiver, rkind, &script, via);
            // continue the stream: prove the decrypter is still in step
            if res["kind"] == "err" {
                let delivered_all4 = t["fail"].get("at").and_then(|x| x.as_u64()).unwrap_or(0) >= 4;
                c.sent = Some(sent_hdr);
                if kind == "serverLong" && delivered_all4 {
                    c.wrath_complete(receiver, bytes[4], via);
                } else {
                    c.read_hdr(receiver, rkind, &[Step::Data(bytes.clone())], via);
                }
            }
            // and the next header still decodes
            if kind == "client" {
                if let Some(b2) = c.enc_client_hdr(&mut cl, 7, 0x37, "half") {
                    c.read_hdr(&mut sv, "client", &[Step::Data(b2)], "half");
                }
            } else if let Some(b2) = c.enc_server_hdr(&mut sv, 9, 0x3B, "half") {
                c.read_hdr(&mut cl, "server", &[Step::Data(b2)], "half");
            }
        } else {
            let (len, wkind, sender, opcode): (usize, &str, &mut Conn, u32) = if kind == "client" { (6, "client", &mut cl, op32) } else { (if kind == "serverLong" { 5 } else { 4 }, "server", &mut sv, op16 as u32) };
            let script = build_wscript(len, t);
            c.write_hdr(sender, wkind, size, opcode, &script, via);
            // the RECEIVING direction of the same object is not touched by a write, failed or not (its state and the
            // bytes it decrypts next are the specification's)
            c.call(sender, "dec", &[0x5A, 0xA5, (k % 251) as u8], via);
            // whatever happened to the writer, the next header continues the keystream
            c.write_hdr(sender, wkind, size, opcode, &[], via);
        }
        c.drop_conn(&cl);
        c.drop_conn(&sv);
    }
    // entry-point agreement: the same header through every entry point from clones of one state
    for round in 0..(if args.tier == "thorough" { 300 } else { 30 }) {
        if round % 20 == 0 {
            fresh(&mut c, &mut rng, &mut bases);
        }
        for (exp_i, exp) in EXPS.iter().enumerate() {
            let (cl0, sv0) = bases[exp_i].clone();
            let size: u32 = if *exp == "wrath" { [12u32, 0x7FFF, 0x8000, 0x7FFFFF, 0xFF, 0xFF00, 0x10000, 0x7F00FF, rng.gen_range(0..=0x7FFFFF)][round % 9] }
                            else { [12u32, 0xFFFF, 0, 0xFF, 0xFF00, 0x100, 0x8000, rng.gen_range(0..=0xFFFF)][round % 8] };
            let op16: u16 = if round % 2 == 0 { [0u16, 0xFF, 0x100, 0x8000, 0xFFFF, 0xFF00, 0x00FF][round % 7] } else { rng.gen() };
            let op32: u32 = if round % 2 == 0 { [0u32, 0x1DC, 0xFFFF_FFFF, 0x0001_0000, 0x0100_0000, 0xFF00_00FF, 0x00FF_FF00][round % 7] } else { rng.gen() };
            let csize: u16 = rng.gen();
            let mut cts: Vec<Vec<u8>> = vec![];
            for variant in 0..4 {
                let mut sv = c.clone_conn(&sv0);
                let mut cl = c.clone_conn(&cl0);
                if variant >= 2 {
                    c.split(&mut sv);
                    c.split(&mut cl);
                }
                let via = if variant % 2 == 0 { "combined" } else { "half" };
                if let Some(x) = c.enc_server_hdr(&mut sv, size, op16, via) { cts.push(x); }
                c.write_hdr(&mut sv, "server", size, op16 as u32, &[], via);
                c.enc_client_hdr(&mut cl, csize, op32, via);
                c.write_hdr(&mut cl, "client", csize as u32, op32, &[], via);
                c.drop_conn(&sv);
                c.drop_conn(&cl);
            }
            // raw operation on the wire layout, and every decrypt entry point on the produced bytes
            let mut sv = c.clone_conn(&sv0);
            let wire: Vec<u8> = if *exp == "wrath" && size > 0x7FFF {
                vec![((size >> 16) as u8) | 0x80, (size >> 8) as u8, size as u8, op16 as u8, (op16 >> 8) as u8]
            } else {
                vec![(size >> 8) as u8, size as u8, op16 as u8, (op16 >> 8) as u8]
            };
            c.call(&mut sv, "enc", &wire, "half");
            c.drop_conn(&sv);
            if let Some(ct) = cts.first() {
                for variant in 0..4 {
                    let mut cl = c.clone_conn(&cl0);
                    if variant >= 2 { c.split(&mut cl); }
                    let via = if variant % 2 == 0 { "combined" } else { "half" };
                    if *exp == "wrath" {
                        let mut a4 = [0u8; 4];
                        a4.copy_from_slice(&ct[..4]);
                        if let Some(None) = c.wrath_attempt(&mut cl, a4, via) { c.wrath_complete(&mut cl, ct[4], via); }
                    } else {
                        let mut a4 = [0u8; 4];
                        a4.copy_from_slice(&ct[..4]);
                        c.dec_server_hdr(&mut cl, a4, via);
                    }
                    let mut cl2 = c.clone_conn(&cl0);
                    c.read_hdr(&mut cl2, "server", &[Step::Data(ct.clone())], via);
                    let mut cl3 = c.clone_conn(&cl0);
                    c.call(&mut cl3, "dec", ct, via);
                    c.drop_conn(&cl); c.drop_conn(&cl2); c.drop_conn(&cl3);
                }
            }
        }
    }
    // a reader that reports Interrupted hundreds or thousands of times inside one header (and a writer likewise): the
    // header is still read / written completely
    for exp in EXPS {
        c.reset("hdrio-many-interruptions");
        let Some((mut cl, mut sv)) = pair(&mut c, exp, "INTR", rnd40(&mut rng), None, 17) else { continue };
        let runs: Vec<usize> = if args.tier == "thorough" { vec![300, 1100, 5000] } else { vec![300, 1100] };
        for (k, n) in runs.iter().enumerate() {
            let Some(h) = c.enc_server_hdr(&mut sv, 0x1234 + k as u32, 0x1EE, "half") else { break };
            let mut sc = vec![];
            for (j, x) in h.iter().enumerate() {
                let reps = if j + 1 == h.len() { *n } else { 3 };
                for _ in 0..reps { sc.push(Step::Intr); }
                sc.push(Step::Data(vec![*x]));
            }
            c.sent = Some((0x1234 + k as u32, 0x1EE));
            c.read_hdr(&mut cl, "server", &sc, "half");
            let Some(h) = c.enc_client_hdr(&mut cl, 0x20 + k as u16, 0x0304_0506, "combined") else { break };
            let mut sc = vec![];
            for x in h.iter() {
                for _ in 0..(*n / 6) { sc.push(Step::Intr); }
                sc.push(Step::Data(vec![*x]));
            }
            c.sent = Some((0x20 + k as u32, 0x0304_0506));
            c.read_hdr(&mut sv, "client", &sc, "combined");
            c.sent = None;
            let mut ws = vec![];
            for _ in 0..*n { ws.push(Step::Intr); }
            ws.push(Step::Accept(2));
            for _ in 0..*n { ws.push(Step::Intr); }
            ws.push(Step::Accept(9));
            let mut svc = c.clone_conn(&sv);     // (on a clone: nobody reads this header)
            c.write_hdr(&mut svc, "server", 0x77, 0x1EE, &ws, "half");
            c.drop_conn(&svc);
        }
    }
    alignment_section(&mut c, &mut rng, &EXPS);
    // sequences on ONE object per expansion: related sizes with the same opcode and related opcodes with the same size,
    // through the typed helper and the Write wrapper alternately, each decoded by the peer - every header is laid out
    // from its own arguments, nothing carried over from the previous call
    for exp in EXPS {
        c.reset("hdrio-sequences");
        let Some((mut cl, mut sv)) = pair(&mut c, exp, "SEQ", rnd40(&mut rng), None, 11) else { continue };
        let wide = exp == "wrath";
        let sizes: Vec<u32> = if wide { vec![5, 0x1_0005, 5, 0x8005, 0x2_0005, 0x7F_0005, 0x0105, 5, 0x7FFF, 0x1_7FFF, 0x8000, 0x1_8000] }
                              else { vec![5, 0x8005, 5, 0x0105, 0x0500, 0x7FFF, 0xFFFF, 0x00FF, 0xFF00, 5] };
        // two nestings: the same opcode over all related sizes, then the same size over related opcodes
        let ops = [0x1EEu16, 0x1EE, 0xEE01, 0x01EE ^ 0x100];
        let mut plan: Vec<(usize, u32, u16)> = vec![];
        for op in ops { for (k, size) in sizes.iter().enumerate() { plan.push((k, *size, op)); } }
        for (k, size) in sizes.iter().enumerate() { for op in ops { plan.push((k, *size, op)); } }
        {
            for (k, size, op) in plan {
                let size = &size;
                let via = if k % 2 == 0 { "combined" } else { "half" };
                let ct = if (k + op as usize) % 3 == 0 {
                    let before = sv.enc_clone();
                    c.write_hdr(&mut sv, "server", *size, op as u32, &[Step::Accept(1), Step::Accept(9)], via);
                    before.map(|mut e| { let mut bb = wire_server(exp, *size, op); e.encrypt(&mut bb); bb })
                } else {
                    c.enc_server_hdr(&mut sv, *size, op, via)
                };
                if let Some(ct) = ct {
                    c.sent = Some((*size, op as u32));
                    c.read_hdr(&mut cl, "server", &[Step::Data(ct)], via);
                }
                let csize = (*size & 0xFFFF) as u16;
                let op32 = (op as u32) << if k % 2 == 0 { 0 } else { 16 };
                if let Some(h) = c.enc_client_hdr(&mut cl, csize, op32, via) {
                    c.sent = Some((csize as u32, op32));
                    c.read_hdr(&mut sv, "client", &[Step::Data(h)], via);
                }
                c.sent = None;
            }
        }
    }
    // Wrath client, entry points MIXED inside one long header: the 4-byte attempt (or a read that failed exactly at the
    // fifth byte), then the fifth byte through the RAW decrypt, then the next header through the Read wrapper or the
    // attempt - the wrapper reads a whole header, whatever happened before
    {
        c.reset("hdrio-mixed-entrypoints");
        if let Some((mut cl, mut sv)) = pair(&mut c, "wrath", "MIXED", rnd40(&mut rng), None, 13) {
            for k in 0..8u32 {
                let via = if k % 2 == 0 { "combined" } else { "half" };
                let Some(h1) = c.enc_server_hdr(&mut sv, 0x1_2345 + k, 0x1EE, via) else { break };
                let mut a4 = [0u8; 4];
                a4.copy_from_slice(&h1[..4]);
                if k % 4 < 2 {
                    c.wrath_attempt(&mut cl, a4, via);
                } else {
                    c.read_hdr(&mut cl, "server", &[Step::Data(h1[..4].to_vec()), Step::Err(ErrorKind::WouldBlock)], via);
                }
                c.call(&mut cl, "dec", &h1[4..5], via);
                let size2 = if k % 2 == 0 { 0x10 + k } else { 0x2_0000 + k };
                let Some(h2) = c.enc_server_hdr(&mut sv, size2, 0x0304, via) else { break };
                c.sent = Some((size2, 0x0304));
                if k % 3 == 2 {
                    let mut b4 = [0u8; 4];
                    b4.copy_from_slice(&h2[..4]);
                    if let Some(None) = c.wrath_attempt(&mut cl, b4, via) { c.wrath_complete(&mut cl, h2[4], via); }
                } else {
                    c.read_hdr(&mut cl, "server", &[Step::Data(h2)], via);
                }
                c.sent = None;
            }
        }
    }
    let _ = ErrorKind::Other;
    c.tr.finish()
}


/// clone_from between Wrath halves of two DIFFERENT sessions whose fresh client encrypters agree in (i, j, S[i], S[j]) -
/// a pair found by a birthday search over 20 000 random keys (input selection; state read from Debug): the destination
/// becomes the source all the same
fn rc4_coincidence(c: &mut C, rng: &mut StdRng) {
    {
        c.reset("clone-from-rc4-coincidence");
        let user = wow_srp::normalized_string::NormalizedString::new("COINCIDE").unwrap();
        let mut seen: std::collections::HashMap<(u64, u8, u8), [u8; 40]> = std::collections::HashMap::new();
        let mut hit: Option<([u8; 40], [u8; 40])> = None;
        for _ in 0..20_000 {
            let k = rnd40(rng);
            let (_, cc) = wr::ProofSeed::new().into_client_header_crypto(&user, k, 1);
            let (e, _d) = cc.split();
            let st = En::WC(e).state();
            let (Some(j), Some(sarr)) = (st["j"].as_u64(), st["S"].as_array()) else { break };
            let i = st["i"].as_u64().unwrap_or(0) as usize;
            let (si, sj) = (sarr[i % 256].as_u64().unwrap_or(0) as u8, sarr[j as usize % 256].as_u64().unwrap_or(0) as u8);
            if let Some(prev) = seen.insert((j, si, sj), k) {
                if prev != k { hit = Some((prev, k)); break; }
            }
        }
        clear_hooks();
        if let Some((ka, kb)) = hit {
            if let (Some((mut a, _)), Some((mut b2, mut svb))) = (pair(c, "wrath", "COINCIDE", ka, None, 1), pair(c, "wrath", "COINCIDE", kb, None, 1)) {
                c.split(&mut a);
                c.split(&mut b2);
                c.clone_from_conn(&mut a, &b2);
                // a is now a copy of b2: what it encrypts is understood by b2's server
                if let Some(h) = c.enc_client_hdr(&mut a, 8, 0x1DC, "half") {
                    c.sent = Some((8, 0x1DC));
                    c.read_hdr(&mut svb, "client", &[Step::Data(h)], "combined");
                    c.sent = None;
                }
                let w = [1u8, 2, 3, 4, 5];
                c.call(&mut a, "dec", &w, "half");
                c.call(&mut b2, "enc", &w, "half");
            }
        }
    }
}


/// clone_from from an object that is exactly one (or two) key periods ahead: same key, same position, ANOTHER carried byte
fn clone_from_same_position(c: &mut C, rng: &mut StdRng, exps: &[&'static str], key: [u8; 40], rounds: usize) {
    c.reset("clone-from-same-position");
    for (i, exp) in exps.iter().cycle().take(rounds).enumerate() {
        let Some((mut a, _)) = pair(c, exp, "SAMEPOS", key, None, 1) else { continue };
        let mut w0 = vec![0u8; 3 + i];
        rng.fill_bytes(&mut w0);
        c.call(&mut a, "enc", &w0, "combined");
        c.call(&mut a, "dec", &w0, "combined");
        if i % 2 == 1 { c.split(&mut a); }
        let mut snap = c.clone_conn(&a);
        let period = if *exp == "vanilla" { 40 } else if *exp == "tbc" { 20 } else { 256 };
        let mut w = vec![0u8; period * (1 + i % 2)];
        rng.fill_bytes(&mut w);
        c.call(&mut a, "enc", &w, "half");
        c.call(&mut a, "dec", &w, "half");
        c.clone_from_conn(&mut snap, &a);
        c.call(&mut snap, "dec", &w0, "half");
        c.call(&mut snap, "enc", &w0, "half");
        c.call(&mut a, "dec", &w0, "half");
    }
}

/// C12: TLC-generated interleavings of {enc, dec, split, clone, unsplit} replayed sequentially,
/// two-thread schedules replayed on real threads, unsplit with equal / different keys.
pub fn run_halves(args: &Args) -> (u64, u64) {
    use std::sync::{Arc, Condvar, Mutex};
    let mut c = C::new(Tr::create(&args.out));
    let mut rng = StdRng::seed_from_u64(args.seed);
    let thorough = args.tier == "thorough";
    let scen: Vec<Value> = args.scen.as_ref().map(|p| read_ndjson(p)).unwrap_or_default();
    let key = rnd40(&mut rng);
    let mut count = 0usize;
    for s in scen.iter().filter(|s| s["t"] == "seq") {
        for exp in EXPS {
            if count % 40 == 0 {
                c.reset("halves");
            }
            count += 1;
            // decoy sessions created just before, whose keys share the first / the last 20 bytes with ours
            // scenarios with a decoy use a fresh session key of their own (nothing derived from it exists yet)
            let key = if count % 5 == 1 { rnd40(&mut rng) } else { key };
            if count % 5 == 1 {
                // exactly one decoy immediately before ours: alternately sharing the first or the last 20 key bytes
                let mut kd = key;
                if count % 10 == 1 {
                    for x in kd.iter_mut().skip(20) { *x ^= 0x5A; }
                } else {
                    for x in kd.iter_mut().take(20) { *x ^= 0xA5; }
                }
                if let Some((d1, d2)) = pair(&mut c, exp, "DECOY", kd, None, 12) {
                    c.drop_conn(&d1);
                    c.drop_conn(&d2);
                }
            }
            let Some((mut cl, sv)) = pair(&mut c, exp, "HALVES", key, None, 11) else { continue };
            // reference objects, built SEPARATELY (own world login on a fresh thread, nothing else alive there):
            // one handles only the sending direction, the other only the receiving one
            let refs = std::thread::spawn(move || {
                let u = wow_srp::normalized_string::NormalizedString::new("HALVES").unwrap();
                match exp {
                    "vanilla" => { let (_, x) = wow_srp::vanilla_header::ProofSeed::new().into_client_header_crypto(&u, key, 11); let (e, d) = x.split(); (En::V(e), De::V(d)) }
                    "tbc" => { let (_, x) = wow_srp::tbc_header::ProofSeed::new().into_client_header_crypto(&u, key, 11); let (e, d) = x.split(); (En::T(e), De::T(d)) }
                    _ => { let (_, x) = wow_srp::wrath_header::ProofSeed::new().into_client_header_crypto(&u, key, 11); let (e, d) = x.split(); (En::WC(e), De::WC(d)) }
                }
            }).join();
            let Ok((mut ref_e, mut ref_d)) = refs else { continue };
            let mut clones: Vec<Conn> = vec![];
            for op in s["ops"].as_array().unwrap() {
                let name = op["op"].as_str().unwrap();
                let n = op.get("n").and_then(|x| x.as_u64()).unwrap_or(0) as usize;
                let mut data = vec![0u8; n];
                rng.fill_bytes(&mut data);
                let via = if cl.is_whole() && rng.gen() { "combined" } else { "half" };
                match name {
                    "enc" => { let mut r0 = data.clone(); ref_e.encrypt(&mut r0); c.ref_out = Some(r0); c.call(&mut cl, "enc", &data, via); }
                    "dec" => { let mut r0 = data.clone(); ref_d.decrypt(&mut r0); c.ref_out = Some(r0); c.call(&mut cl, "dec", &data, via); }
                    "split" => c.split(&mut cl),
                    "unsplit" => { if exp == "vanilla" { c.unsplit(&mut cl, None); } }
                    "clone" => {
                        // continue on the clone AND on the original
                        let mut k = c.clone_conn(&cl);
                        let mut d2 = vec![0u8; 3];
                        rng.fill_bytes(&mut d2);
                        let (mut kre, mut krd) = (ref_e.clone(), ref_d.clone());
                        let mut r0 = d2.clone(); kre.encrypt(&mut r0); c.ref_out = Some(r0);
                        c.call(&mut k, "enc", &d2, "half");
                        let mut r0 = d2.clone(); krd.decrypt(&mut r0); c.ref_out = Some(r0);
                        c.call(&mut k, "dec", &d2, "half");
                        clones.push(k);
                    }
                    _ => {}
                }
            }
            for k in &clones { c.drop_conn(k); }
            c.drop_conn(&cl);
            c.drop_conn(&sv);
        }
    }
    // clones taken in the MIDDLE of an operation: between the 4-byte attempt and the fifth byte of a long Wrath header
    // (combined object and split half); the copy and the original must both complete the header
    for round in 0..(if thorough { 40 } else { 6 }) {
        c.reset("halves-midclone");
        let Some((mut cl, mut sv)) = pair(&mut c, "wrath", "MIDCLONE", rnd40(&mut rng), None, round) else { continue };
        if round % 2 == 1 {
            c.split(&mut cl);
        }
        for (k, size) in [0x8000u32, 0x7FFFFF, 0x12345, 12, 0x10000].iter().enumerate() {
            let op = OPCODES[(k + round as usize) % OPCODES.len()];
            let Some(bytes) = c.enc_server_hdr(&mut sv, *size, op, "combined") else { break };
            let mut a4 = [0u8; 4];
            a4.copy_from_slice(&bytes[..4]);
            c.sent = Some((*size, op as u32));
            match c.wrath_attempt(&mut cl, a4, "half") {
                Some(None) => {
                    let mut k2 = c.clone_conn(&cl);
                    c.sent = Some((*size, op as u32));
                    c.is_clone = true;
                    c.wrath_complete(&mut k2, bytes[4], "half");
                    c.is_clone = false;
                    // the copy goes on decoding the same stream independently of the original
                    c.sent = Some((*size, op as u32));
                    c.wrath_complete(&mut cl, bytes[4], "half");
                    if let Some(b2) = c.enc_server_hdr(&mut sv, 7, 0x3B, "combined") {
                        let mut b4 = [0u8; 4];
                        b4.copy_from_slice(&b2[..4]);
                        c.is_clone = true;
                        c.sent = Some((7, 0x3B));
                        c.wrath_attempt(&mut k2, b4, "half");
                        c.is_clone = false;
                        c.sent = Some((7, 0x3B));
                        c.wrath_attempt(&mut cl, b4, "half");
                    }
                    c.drop_conn(&k2);
                }
                _ => { c.sent = None; }
            }
        }
    }
    // unsplit: equal keys after arbitrary traffic; keys differing in exactly one byte / one bit
    c.reset("unsplit");
    for i in 0..40usize {
        let Some((mut a, _)) = pair(&mut c, "vanilla", "UNSPLIT", key, None, 1) else { continue };
        let mut k2 = key;
        k2[i] ^= if i % 2 == 0 { 0x01 } else { 0xFF };
        match i % 5 {
            // differences that cancel under a folded comparison: the same mask in two bytes, two bytes swapped,
            // the same mask in four bytes
            2 => k2[(i * 7 + 3) % 40] ^= if i % 2 == 0 { 0x01 } else { 0xFF },
            3 => { k2 = key; k2.swap(i, (i + 11) % 40); if k2 == key { k2[i] ^= 0x80; } }
            4 => { for j in 1..4 { k2[(i + 9 * j) % 40] ^= if i % 2 == 0 { 0x01 } else { 0xFF }; } }
            _ => {}
        }
        if k2 == key { k2[0] ^= 1; }
        let Some((mut b2, _)) = pair(&mut c, "vanilla", "UNSPLIT", k2, None, 1) else { continue };
        let mut w = vec![0u8; i + 1];
        rng.fill_bytes(&mut w);
        c.call(&mut a, "enc", &w, "combined");
        c.call(&mut b2, "dec", &w, "combined");
        c.split(&mut a);
        c.split(&mut b2);
        let State::Parts(_, De::V(d_other)) = b2.st.clone() else { unreachable!() };
        c.unsplit(&mut a, Some((b2.hd, d_other)));   // different key: must be refused
        c.unsplit(&mut a, None);                      // own decrypter: must succeed
        c.call(&mut a, "enc", &w, "combined");
        c.call(&mut a, "dec", &w, "combined");
        if i % 10 == 9 { c.reset("unsplit"); }
    }
    // different keys that COLLIDE under common 32-bit fingerprints (FNV-1a, CRC-32, djb2, sdbm, a sum of 32-bit words):
    // found by a birthday search over the last four key bytes; re-joining must still be refused - it depends on the keys
    {
        fn fnv1a(k: &[u8]) -> u32 { k.iter().fold(0x811C_9DC5u32, |h, b| (h ^ *b as u32).wrapping_mul(0x0100_0193)) }
        fn crc32(k: &[u8]) -> u32 {
            let mut c = 0xFFFF_FFFFu32;
            for b in k { c ^= *b as u32; for _ in 0..8 { c = if c & 1 == 1 { (c >> 1) ^ 0xEDB8_8320 } else { c >> 1 }; } }
            !c
        }
        fn djb2(k: &[u8]) -> u32 { k.iter().fold(5381u32, |h, b| h.wrapping_mul(33).wrapping_add(*b as u32)) }
        fn sdbm(k: &[u8]) -> u32 { k.iter().fold(0u32, |h, b| (*b as u32).wrapping_add(h << 6).wrapping_add(h << 16).wrapping_sub(h)) }
        fn wsum(k: &[u8]) -> u32 { k.chunks(4).fold(0u32, |h, w| h.rotate_left(5).wrapping_add(u32::from_le_bytes([w[0], w[1], w[2], w[3]]))) }
        let fns: [(&str, fn(&[u8]) -> u32); 5] = [("fnv1a", fnv1a), ("crc32", crc32), ("djb2", djb2), ("sdbm", sdbm), ("wsum", wsum)];
        c.reset("unsplit-fingerprint-collisions");
        for (_name, f) in fns {
            let mut k = key;
            let mut seen: std::collections::HashMap<u32, u32> = std::collections::HashMap::new();
            let mut hit: Option<(u32, u32)> = None;
            for t in 0..400_000u32 {
                let v = t.wrapping_mul(0x9E37_79B1);
                k[36..40].copy_from_slice(&v.to_le_bytes());
                if let Some(prev) = seen.insert(f(&k), v) {
                    if prev != v { hit = Some((prev, v)); break; }
                }
            }
            let Some((v1, v2)) = hit else { continue };
            let (mut k1, mut k2) = (key, key);
            k1[36..40].copy_from_slice(&v1.to_le_bytes());
            k2[36..40].copy_from_slice(&v2.to_le_bytes());
            let Some((mut a, _)) = pair(&mut c, "vanilla", "UNSPLIT", k1, None, 1) else { continue };
            let Some((mut b2, _)) = pair(&mut c, "vanilla", "UNSPLIT", k2, None, 1) else { continue };
            c.split(&mut a);
            c.split(&mut b2);
            let State::Parts(_, De::V(d_other)) = b2.st.clone() else { unreachable!() };
            c.unsplit(&mut a, Some((b2.hd, d_other)));
            c.unsplit(&mut a, None);
        }
    }
    // the SAME key in halves of different origin: another object built from the same key and split on its own, and a
    // clone's decrypter - re-joining must succeed (it depends on the key alone) and the joined object carries on
    c.reset("unsplit-samekey");
    for i in 0..(if args.tier == "thorough" { 24usize } else { 6 }) {
        let Some((mut a, _)) = pair(&mut c, "vanilla", "UNSPLIT", key, None, 1) else { continue };
        let Some((mut b2, _)) = pair(&mut c, "vanilla", "UNSPLIT", key, None, 1) else { continue };
        let mut w = vec![0u8; 3 + i];
        rng.fill_bytes(&mut w);
        c.call(&mut a, "enc", &w, "combined");
        c.call(&mut b2, "dec", &w[..1 + i % 3], "combined");
        c.split(&mut a);
        if i % 2 == 0 {
            c.split(&mut b2);
            let State::Parts(_, De::V(d_other)) = b2.st.clone() else { unreachable!() };
            c.unsplit(&mut a, Some((b2.hd, d_other)));
        } else {
            let mut k = c.clone_conn(&a);
            c.call(&mut k, "dec", &w[..2], "half");
            let State::Parts(_, De::V(d_other)) = k.st.clone() else { unreachable!() };
            c.unsplit(&mut a, Some((k.hd, d_other)));
        }
        c.call(&mut a, "enc", &w, "combined");
        c.call(&mut a, "dec", &w, "combined");
        if i % 6 == 5 { c.reset("unsplit-samekey"); }
    }
    // a FAILED header write on the combined object (each error kind, at each offset) leaves the receiving direction alone:
    // the two directions are out of lock step, then the write fails, then both directions are used again
    c.reset("write-failure-independence");
    for (i, exp) in EXPS.iter().cycle().take(if args.tier == "thorough" { 36 } else { 12 }).enumerate() {
        let Some((mut a, mut b2)) = pair(&mut c, exp, "WFAIL", key, None, 1) else { continue };
        let mut w = vec![0u8; 4 + i];
        rng.fill_bytes(&mut w);
        c.call(&mut a, "enc", &w, "combined");
        c.call(&mut a, "dec", &w[..1 + i % 3], "combined");
        c.call(&mut b2, "dec", &w, "combined");
        let kind = [ErrorKind::WouldBlock, ErrorKind::TimedOut, ErrorKind::BrokenPipe, ErrorKind::Other][(i / 3) % 4];
        let script = if i % 7 == 6 { vec![Step::Accept(1), Step::Accept(0)] } else if i % 2 == 0 { vec![Step::Accept(1 + i % 3), Step::Err(kind)] } else { vec![Step::Err(kind)] };
        c.write_hdr(&mut a, "client", 0x10 + i as u32, 0x1DC, &script, "combined");
        c.call(&mut a, "dec", &w, "combined");
        c.write_hdr(&mut b2, "server", 0x20 + i as u32, 0x1EE, &script, "combined");
        c.call(&mut b2, "dec", &w[..3], "combined");
        c.call(&mut b2, "enc", &w, "combined");
    }
    clone_from_same_position(&mut c, &mut rng, &EXPS, key, if args.tier == "thorough" { 18 } else { 6 });
    // ONE half of a combined object replaced through its accessor (`*obj.encrypter() = other`, or the decrypter) by a half
    // with ANOTHER key: each direction then follows its own half; the typed helpers of the untouched direction included
    c.reset("half-replaced-through-accessor");
    for (i, exp) in EXPS.iter().cycle().take(if args.tier == "thorough" { 18 } else { 6 }).enumerate() {
        let mut k2 = key;
        for x in k2.iter_mut() { *x ^= 0x42 + i as u8; }
        let Some((mut a, mut sva)) = pair(&mut c, exp, "REPLACED", key, None, 1) else { continue };
        let Some((mut o, mut svo)) = pair(&mut c, exp, "REPLACED", k2, None, 1) else { continue };
        let replace_enc = i % 2 == 0;
        let done = match (&mut a.st, &mut o.st) {
            (State::Whole(Cr::V(x)), State::Whole(Cr::V(y))) => { if replace_enc { *x.encrypter() = y.encrypter().clone(); } else { *x.decrypter() = y.decrypter().clone(); } true }
            (State::Whole(Cr::T(x)), State::Whole(Cr::T(y))) => { if replace_enc { *x.encrypter() = y.encrypter().clone(); } else { *x.decrypter() = y.decrypter().clone(); } true }
            (State::Whole(Cr::WC(x)), State::Whole(Cr::WC(y))) => { if replace_enc { *x.encrypter() = y.encrypter().clone(); } else { *x.decrypter() = y.decrypter().clone(); } true }
            _ => false,
        };
        if !done { continue; }
        if replace_enc {
            c.tr.ev(json!({"ev": "DropHalf", "h": a.he}));
            a.he = c.hid();
            c.tr.ev(json!({"ev": "CloneHalf", "h": o.he, "h2": a.he}));
        } else {
            c.tr.ev(json!({"ev": "DropHalf", "h": a.hd}));
            a.hd = c.hid();
            c.tr.ev(json!({"ev": "CloneHalf", "h": o.hd, "h2": a.hd}));
        }
        // the object now sends with one key and receives with the other: each server understands its direction
        let (send_srv, recv_srv) = if replace_enc { (&mut svo, &mut sva) } else { (&mut sva, &mut svo) };
        if let Some(h) = c.enc_client_hdr(&mut a, 0x0123, 0x1ED, "combined") {
            c.sent = Some((0x0123, 0x1ED));
            c.read_hdr(send_srv, "client", &[Step::Data(h)], "combined");
        }
        if let Some(h) = c.enc_server_hdr(recv_srv, 0x0456, 0x1EE, "combined") {
            c.sent = Some((0x0456, 0x1EE));
            if *exp == "wrath" {
                c.read_hdr(&mut a, "server", &[Step::Data(h)], "combined");
            } else {
                let mut a4 = [0u8; 4];
                a4.copy_from_slice(&h);
                c.dec_server_hdr(&mut a, a4, "combined");
            }
        }
        c.sent = None;
        let w = [9u8, 8, 7, 6, 5, 4, 3];
        c.call(&mut a, "enc", &w, "combined");
        c.call(&mut a, "dec", &w, "combined");
    }
    // the same on the SERVER side objects of vanilla / tbc (one type serves both roles) with the client-header helper
    for (i, exp) in ["vanilla", "tbc"].iter().enumerate() {
        let mut k2 = key;
        for x in k2.iter_mut() { *x ^= 0x24 + i as u8; }
        let Some((mut cla, mut a)) = pair(&mut c, exp, "REPLACED", key, None, 1) else { continue };
        let Some((_clo, mut o)) = pair(&mut c, exp, "REPLACED", k2, None, 1) else { continue };
        let done = match (&mut a.st, &mut o.st) {
            (State::Whole(Cr::V(x)), State::Whole(Cr::V(y))) => { *x.encrypter() = y.encrypter().clone(); true }
            (State::Whole(Cr::T(x)), State::Whole(Cr::T(y))) => { *x.encrypter() = y.encrypter().clone(); true }
            _ => false,
        };
        if !done { continue; }
        c.tr.ev(json!({"ev": "DropHalf", "h": a.he}));
        a.he = c.hid();
        c.tr.ev(json!({"ev": "CloneHalf", "h": o.he, "h2": a.he}));
        // the receiving direction of `a` still uses the first key: its own client's header decodes
        if let Some(h) = c.enc_client_hdr(&mut cla, 0x0123, 0x1ED, "combined") {
            c.sent = Some((0x0123, 0x1ED));
            let mut a6 = [0u8; 6];
            a6.copy_from_slice(&h);
            c.dec_client_hdr(&mut a, a6, "combined");
            c.sent = None;
        }
    }
    // clone_from between halves of DIFFERENT keys: the destination becomes the source (key included), for every expansion;
    // a vanilla destination can then be re-joined with the source's decrypter
    c.reset("clone-from");
    for (i, exp) in EXPS.iter().cycle().take(if args.tier == "thorough" { 18 } else { 6 }).enumerate() {
        let mut k2 = key;
        k2[(i * 7) % 40] ^= 0x10;
        let Some((mut a, _)) = pair(&mut c, exp, "CLONEFROM", key, None, 1) else { continue };
        let Some((mut b2, _)) = pair(&mut c, exp, "CLONEFROM", k2, None, 1) else { continue };
        let mut w = vec![0u8; 5 + i];
        rng.fill_bytes(&mut w);
        c.call(&mut a, "enc", &w, "combined");
        c.call(&mut a, "dec", &w[..3], "combined");
        c.call(&mut b2, "enc", &w[..2], "combined");
        if i % 2 == 0 {
            c.split(&mut a);
            c.split(&mut b2);
        }
        c.clone_from_conn(&mut b2, &a);
        c.call(&mut b2, "enc", &w, "half");
        c.call(&mut b2, "dec", &w, "half");
        c.call(&mut a, "enc", &w, "half");
        if *exp == "vanilla" && i % 2 == 0 {
            let State::Parts(_, De::V(d_a)) = a.st.clone() else { unreachable!() };
            c.unsplit(&mut b2, Some((a.hd, d_a)));
            c.call(&mut b2, "dec", &w, "combined");
        }
    }
    rc4_coincidence(&mut c, &mut rng);
    // two-thread schedules: each thread owns one half; TLC's schedule is followed in lock-step
    fn assert_send<T: Send>() {}
    assert_send::<En>();
    assert_send::<De>();
    for (si, s) in scen.iter().filter(|s| s["t"] == "sched").enumerate() {
        for exp in EXPS {
            if si % 10 == 0 || true {
                c.reset("threads");
            }
            let Some((mut cl, _sv)) = pair(&mut c, exp, "THREADS", key, None, 21) else { continue };
            c.split(&mut cl);
            let State::Parts(e, d) = cl.st.clone() else { unreachable!() };
            let sched: Vec<u64> = s["sched"].as_array().unwrap().iter().map(|x| x.as_u64().unwrap()).collect();
            let sizes: Vec<u64> = s["sizes"].as_array().unwrap().iter().map(|x| x.as_u64().unwrap()).collect();
            let shared = Arc::new((Mutex::new((0usize, Vec::<Value>::new())), Condvar::new()));
            let mut handles = vec![];
            for who in 0..2u64 {
                let shared = Arc::clone(&shared);
                let sched = sched.clone();
                let sizes = sizes.clone();
                let mut e = e.clone();
                let mut d = d.clone();
                let (he, hd) = (cl.he, cl.hd);
                let seed = args.seed ^ (si as u64) << 8 ^ who;
                handles.push(std::thread::spawn(move || {
                    let mut r = StdRng::seed_from_u64(seed);
                    for (pos, w) in sched.iter().enumerate() {
                        if *w != who { continue; }
                        let (m, cv) = &*shared;
                        let mut g = m.lock().unwrap();
                        while g.0 != pos { g = cv.wait(g).unwrap(); }
                        let mut data = vec![0u8; sizes[pos] as usize];
                        r.fill_bytes(&mut data);
                        let inp = data.clone();
                        let ev = if who == 0 {
                            e.encrypt(&mut data);
                            json!({"ev": "Call", "h": he, "data": b(&inp), "via": "thread", "st": e.state(), "res": {"kind": "ok", "out": b(&data)}})
                        } else {
                            d.decrypt(&mut data);
                            json!({"ev": "Call", "h": hd, "data": b(&inp), "via": "thread", "st": d.state(), "res": {"kind": "ok", "out": b(&data)}})
                        };
                        g.1.push(ev);
                        g.0 += 1;
                        cv.notify_all();
                    }
                }));
            }
            for h in handles { let _ = h.join(); }
            let evs = std::mem::take(&mut shared.0.lock().unwrap().1);
            let (mut re, mut rd) = (e.clone(), d.clone());
            for mut ev in evs {
                let mut r0 = jbytes(&ev["data"]);
                if ev["h"].as_u64() == Some(cl.he) { re.encrypt(&mut r0); } else { rd.decrypt(&mut r0); }
                ev["ref"] = b(&r0);
                c.tr.ev(ev);
            }
        }
    }
    // free-running threads: each half on its own thread, no coordination at all
    for round in 0..(if thorough { 30 } else { 4 }) {
        for exp in EXPS {
            c.reset("threads-free");
            let Some((mut cl, _sv)) = pair(&mut c, exp, "THREADS", rnd40(&mut rng), None, round) else { continue };
            c.split(&mut cl);
            let State::Parts(e, d) = cl.st.clone() else { unreachable!() };
            let (he, hd) = (cl.he, cl.hd);
            let (mut re, mut rd) = (e.clone(), d.clone());
            let s1 = args.seed + round as u64 * 2;
            let t1 = std::thread::spawn(move || {
                let mut e = e;
                let mut r = StdRng::seed_from_u64(s1);
                let mut evs = vec![];
                for _ in 0..60 {
                    let mut data = vec![0u8; r.gen_range(0..50)];
                    r.fill_bytes(&mut data);
                    let inp = data.clone();
                    e.encrypt(&mut data);
                    evs.push(json!({"ev": "Call", "h": he, "data": b(&inp), "via": "thread", "st": e.state(), "res": {"kind": "ok", "out": b(&data)}}));
                }
                evs
            });
            let t2 = std::thread::spawn(move || {
                let mut d = d;
                let mut r = StdRng::seed_from_u64(s1 + 1);
                let mut evs = vec![];
                for _ in 0..60 {
                    let mut data = vec![0u8; r.gen_range(0..50)];
                    r.fill_bytes(&mut data);
                    let inp = data.clone();
                    d.decrypt(&mut data);
                    evs.push(json!({"ev": "Call", "h": hd, "data": b(&inp), "via": "thread", "st": d.state(), "res": {"kind": "ok", "out": b(&data)}}));
                }
                evs
            });
            // the halves share no state, so any merge of the two logs is a behaviour of the spec; log A then B
            for mut ev in t1.join().unwrap_or_default() { let mut r0 = jbytes(&ev["data"]); re.encrypt(&mut r0); ev["ref"] = b(&r0); c.tr.ev(ev); }
            for mut ev in t2.join().unwrap_or_default() { let mut r0 = jbytes(&ev["data"]); rd.decrypt(&mut r0); ev["ref"] = b(&r0); c.tr.ev(ev); }
        }
    }
    first_operation_section(&mut c, &mut rng);
    c.tr.finish()
}

/// one-direction reference halves for `role`, from a world login of their own on a fresh thread
fn ref_halves(exp: &'static str, role: &'static str, key: [u8; 40]) -> Option<(En, De)> {
    std::thread::spawn(move || {
        let u = wow_srp::normalized_string::NormalizedString::new("FIRSTOP").unwrap();
        match (exp, role) {
            ("vanilla", "client") => { let (_, x) = wow_srp::vanilla_header::ProofSeed::new().into_client_header_crypto(&u, key, 21); let (e, d) = x.split(); Some((En::V(e), De::V(d))) }
            ("tbc", "client") => { let (_, x) = wow_srp::tbc_header::ProofSeed::new().into_client_header_crypto(&u, key, 21); let (e, d) = x.split(); Some((En::T(e), De::T(d))) }
            ("wrath", "client") => { let (_, x) = wr::ProofSeed::new().into_client_header_crypto(&u, key, 21); let (e, d) = x.split(); Some((En::WC(e), De::WC(d))) }
            // (Vanilla and TBC halves are the same types and keys for both roles)
            ("vanilla", _) => { let (_, y) = wow_srp::vanilla_header::ProofSeed::new().into_client_header_crypto(&u, key, 21); let (e, d) = y.split(); Some((En::V(e), De::V(d))) }
            ("tbc", _) => { let (_, y) = wow_srp::tbc_header::ProofSeed::new().into_client_header_crypto(&u, key, 21); let (e, d) = y.split(); Some((En::T(e), De::T(d))) }
            _ => {
                // Wrath server halves differ from the client's: a real server login against a proof made for its own seed
                let ss = wr::ProofSeed::new(); let ssv = ss.seed();
                let cs = wr::ProofSeed::new(); let csv = cs.seed();
                let (p, _) = cs.into_client_header_crypto(&u, key, ssv);
                let x = ss.into_server_header_crypto(&u, key, p, csv).ok()?;
                let (e, d) = x.split();
                Some((En::WS(e), De::WS(d)))
            }
        }
    }).join().ok().flatten()
}

fn parse_plain_header(exp: &str, kind: &str, p: &[u8]) -> Value {
    if kind == "client" {
        hdr_json_client(u16::from_be_bytes([p[0], p[1]]), u32::from_le_bytes([p[2], p[3], p[4], p[5]]))
    } else if exp == "wrath" && p[0] & 0x80 != 0 {
        hdr_json_server((((p[0] & 0x7F) as u32) << 16) | ((p[1] as u32) << 8) | p[2] as u32, u16::from_le_bytes([p[3], p[4]]))
    } else {
        hdr_json_server(u16::from_be_bytes([p[0], p[1]]) as u32, u16::from_le_bytes([p[2], p[3]]))
    }
}

/// C12: EVERY entry point as the VERY FIRST operation on a fresh combined object (nothing, not even an accessor, has
/// touched it: the harness observes through clones), then the other entry points; every byte the object produces and
/// every header it decodes is compared with a pair of separate one-direction reference halves fed the same input
pub fn first_operation_section(c: &mut C, rng: &mut StdRng) {
    for exp in EXPS {
        for role in ["server", "client"] {
            c.reset("first-operation");
            let key = rnd40(rng);
            for first in 0..6usize {
                for via in ["combined", "half"] {
                    let Some((mut cl, mut sv)) = pair(c, exp, "FIRSTOP", key, None, 21) else { continue };
                    let Some((mut ref_e, mut ref_d)) = ref_halves(exp, role, key) else { continue };
                    let (subject, peer): (&mut Conn, &mut Conn) = if role == "server" { (&mut sv, &mut cl) } else { (&mut cl, &mut sv) };
                    let in_kind = if role == "server" { "client" } else { "server" };
                    let out_kind = role;
                    // the six operations, the chosen one first, then all of them in order
                    let mut order: Vec<usize> = vec![first];
                    order.extend(0..6usize);
                    for (n, op) in order.into_iter().enumerate() {
                        let size: u32 = if exp == "wrath" && in_kind == "server" && n % 2 == 1 { 0x1_2345 + n as u32 } else { 0x20 + n as u32 };
                        let op16 = OPCODES[(n + first) % OPCODES.len()];
                        let op32 = 0x1DC + n as u32;
                        match op {
                            0 | 1 | 2 => {
                                // incoming: the peer encrypts a header; the subject decodes it through the Read wrapper (0),
                                // the typed helper (1) or the raw operation (2)
                                let ct = if in_kind == "client" { c.enc_client_hdr(peer, size as u16, op32, "combined") } else { c.enc_server_hdr(peer, size, op16, "combined") };
                                let Some(ct) = ct else { break };
                                let mut plain = ct.clone();
                                ref_d.decrypt(&mut plain);
                                c.sent = Some(if in_kind == "client" { (size & 0xFFFF, op32) } else { (size, op16 as u32) });
                                if op == 0 || (op == 1 && exp == "wrath" && in_kind == "server") {
                                    c.ref_hdr = Some(parse_plain_header(exp, in_kind, &plain));
                                    c.read_hdr(subject, in_kind, &[Step::Data(ct)], via);
                                } else if op == 1 && in_kind == "client" {
                                    let mut a = [0u8; 6]; a.copy_from_slice(&ct[..6]);
                                    c.dec_client_hdr(subject, a, via);
                                } else if op == 1 {
                                    let mut a = [0u8; 4]; a.copy_from_slice(&ct[..4]);
                                    c.dec_server_hdr(subject, a, via);
                                } else {
                                    c.ref_out = Some(plain);
                                    c.call(subject, "dec", &ct, via);
                                }
                                c.sent = None;
                            }
                            _ => {
                                // outgoing: Write wrapper (3), typed helper (4), raw operation on the wire layout (5)
                                let wire = if out_kind == "client" { wire_client(size as u16, op32) } else { wire_server(exp, size & 0x7FFF, op16) };
                                let mut want = wire.clone();
                                ref_e.encrypt(&mut want);
                                if op == 3 {
                                    c.write_hdr(subject, out_kind, if out_kind == "client" { size & 0xFFFF } else { size & 0x7FFF }, if out_kind == "client" { op32 } else { op16 as u32 }, &[Step::Accept(9)], via);
                                } else if op == 4 {
                                    if out_kind == "client" { c.enc_client_hdr(subject, size as u16, op32, via); } else { c.enc_server_hdr(subject, size & 0x7FFF, op16, via); }
                                } else {
                                    c.ref_out = Some(want);
                                    c.call(subject, "enc", &wire, via);
                                }
                            }
                        }
                    }
                    c.ref_out = None;
                    c.ref_hdr = None;
                }
            }
        }
    }
}

/// C14 (header side): decrypters fed arbitrary bytes, in any amount and ORDER, through every entry point;
/// in particular the Wrath client's second-step call without a preceding attempt.
pub fn run_hdradv(args: &Args) -> (u64, u64) {
    let mut c = C::new(Tr::create(&args.out));
    let mut rng = StdRng::seed_from_u64(args.seed);
    let rounds = if args.tier == "thorough" { 200 } else { 12 };
    for round in 0..rounds {
        for exp in EXPS {
            c.reset("hdradv");
            let Some((mut cl, mut sv)) = pair(&mut c, exp, "HOSTILE", key_class(&mut rng, round), None, rng.gen()) else { continue };
            if round % 2 == 1 {
                c.split(&mut cl);
                c.split(&mut sv);
            }
            let via = if round % 3 == 0 { "combined" } else { "half" };
            let mut g4 = [0u8; 4];
            let mut g6 = [0u8; 6];
            if exp == "wrath" {
                // second-step call on a fresh decrypter, repeatedly, before any attempt
                c.wrath_complete(&mut cl, rng.gen(), via);
                c.wrath_complete(&mut cl, 0xFF, via);
                for k in 0..10 {
                    rng.fill_bytes(&mut g4);
                    if k % 4 == 0 { g4 = [0xff; 4]; }
                    if k % 4 == 1 { g4 = [0; 4]; }
                    let r = c.wrath_attempt(&mut cl, g4, via);
                    // out of protocol order: complete after a short header, or skip the completion after a long one
                    if k % 2 == 0 || matches!(r, Some(Some(_))) {
                        c.wrath_complete(&mut cl, rng.gen(), via);
                    }
                }
                // a long header cut off after exactly four bytes (and after 1..3), through the read-based call
                for cut in [4usize, 1, 3] {
                    if let Some(h) = c.enc_server_hdr(&mut sv, 0x7F_0000 + cut as u32, 0x1EE, via) {
                        let res = c.read_hdr(&mut cl, "server", &[Step::Data(h[..cut].to_vec())], via);
                        // whatever happened, hand over the rest so that both sides stay in step
                        if cut == 4 && res["kind"] == "err" {
                            c.wrath_complete(&mut cl, h[4], via);
                        } else if cut < 4 {
                            c.read_hdr(&mut cl, "server", &[Step::Data(h.clone())], via);
                        }
                    }
                }
                // random 4-byte groups through the read-based call with nothing after them
                for _ in 0..6 {
                    rng.fill_bytes(&mut g4);
                    let res = c.read_hdr(&mut cl, "server", &[Step::Data(g4.to_vec())], via);
                    if res["kind"] == "err" {
                        c.wrath_complete(&mut cl, rng.gen(), via);
                    }
                }
                // a long header whose fifth byte arrives only after other bytes went through the raw decrypt
                if let Some(h) = c.enc_server_hdr(&mut sv, 0x18000, 0x1EE, via) {
                    let mut a4 = [0u8; 4];
                    a4.copy_from_slice(&h[..4]);
                    c.wrath_attempt(&mut cl, a4, via);
                    let mut mid = vec![0u8; 5];
                    rng.fill_bytes(&mut mid);
                    c.call(&mut cl, "dec", &mid, via);
                    c.wrath_complete(&mut cl, h[4], via);
                }
                // legitimate long header, then extra completions with stale state
                if let Some(h) = c.enc_server_hdr(&mut sv, 0x7FFFFF, 0xFFFF, via) {
                    let mut a4 = [0u8; 4];
                    a4.copy_from_slice(&h[..4]);
                    c.wrath_attempt(&mut cl, a4, via);
                    c.wrath_complete(&mut cl, h[4], via);
                    c.wrath_complete(&mut cl, 0, via);
                }
                let mut junk = vec![0u8; rng.gen_range(0..9)];
                rng.fill_bytes(&mut junk);
                c.read_hdr(&mut cl, "server", &[Step::Data(junk)], via);
            } else {
                for _ in 0..6 {
                    rng.fill_bytes(&mut g4);
                    c.dec_server_hdr(&mut cl, g4, via);
                    let mut junk = vec![0u8; rng.gen_range(0..7)];
                    rng.fill_bytes(&mut junk);
                    c.read_hdr(&mut cl, "server", &[Step::Data(junk)], via);
                }
            }
            for k in 0..6 {
                rng.fill_bytes(&mut g6);
                if k == 0 { g6 = [0xff; 6]; }
                c.dec_client_hdr(&mut sv, g6, via);
                let mut junk = vec![0u8; rng.gen_range(0..9)];
                rng.fill_bytes(&mut junk);
                c.read_hdr(&mut sv, "client", &[Step::Data(junk)], via);
            }
            // the peer chooses the PLAINTEXT the victim will see: degenerate field values in correctly encrypted headers
            // (size 0..3 - smaller than the opcode it is said to include -, 0xFFFF, opcode 0 / all ones; for Wrath the
            // long-header marker with size zero), through the array call and the read-based call
            {
                let plains6: [[u8; 6]; 7] = [[0, 0, 0, 0, 0, 0], [0, 1, 1, 0, 0, 0], [0, 2, 0xFF, 0xFF, 0xFF, 0xFF], [0, 3, 0, 0, 0, 0x80],
                                             [0xFF, 0xFF, 0xFF, 0xFF, 0xFF, 0xFF], [0x80, 0, 0, 0, 0, 0], [0, 4, 0xDC, 1, 0, 0]];
                for (k, p6) in plains6.iter().enumerate() {
                    if let Some(ct) = c.call(&mut cl, "enc", p6, via) {
                        if (k + round) % 2 == 0 {
                            let mut a6 = [0u8; 6];
                            a6.copy_from_slice(&ct);
                            c.dec_client_hdr(&mut sv, a6, via);
                        } else {
                            c.read_hdr(&mut sv, "client", &[Step::Data(ct[..2].to_vec()), Step::Intr, Step::Data(ct[2..].to_vec())], via);
                        }
                    }
                }
                let plains4: [[u8; 4]; 6] = [[0, 0, 0, 0], [0, 1, 0, 0], [0, 2, 0xFF, 0xFF], [0xFF, 0xFF, 0xFF, 0xFF], [0x7F, 0xFF, 0, 0], [0, 3, 0xEE, 1]];
                for (k, p4) in plains4.iter().enumerate() {
                    if let Some(ct) = c.call(&mut sv, "enc", p4, via) {
                        if exp == "wrath" {
                            if (k + round) % 2 == 0 {
                                let mut a4 = [0u8; 4];
                                a4.copy_from_slice(&ct);
                                c.wrath_attempt(&mut cl, a4, via);
                            } else {
                                c.read_hdr(&mut cl, "server", &[Step::Data(ct)], via);
                            }
                        } else if (k + round) % 2 == 0 {
                            let mut a4 = [0u8; 4];
                            a4.copy_from_slice(&ct);
                            c.dec_server_hdr(&mut cl, a4, via);
                        } else {
                            c.read_hdr(&mut cl, "server", &[Step::Data(ct)], via);
                        }
                    }
                }
                if exp == "wrath" {
                    for p5 in [[0x80u8, 0, 0, 0, 0], [0x80, 0, 1, 0xFF, 0xFF], [0xFF, 0xFF, 0xFF, 0xFF, 0xFF]] {
                        if let Some(ct) = c.call(&mut sv, "enc", &p5, via) {
                            c.read_hdr(&mut cl, "server", &[Step::Data(ct)], via);
                        }
                    }
                }
            }
            // the public from_array parsers on arbitrary bytes
            for j in 0..8u8 {
                let mut b6 = [0u8; 6];
                rng.fill_bytes(&mut b6);
                if j >= 4 { b6[0] = 0; b6[1] = j - 4; }
                let r = guard(|| {
                    let sh = wow_srp::vanilla_header::ServerHeader::from_array([b6[0], b6[1], b6[2], b6[3]]);
                    let ch = wow_srp::vanilla_header::ClientHeader::from_array(b6);
                    let ws = wow_srp::wrath_header::ServerHeader::from_small_array([b6[0], b6[1], b6[2], b6[3]]);
                    let wl = wow_srp::wrath_header::ServerHeader::from_large_array([b6[0], b6[1], b6[2], b6[3], b6[4]]);
                    json!({"ev": "ParseHdr", "bytes": b(&b6),
                        "server": {"size": sh.size, "opcode": sh.opcode}, "client": {"size": ch.size, "opcode": u32le(ch.opcode)},
                        "small": {"size": ws.size, "opcode": ws.opcode}, "large": {"size": wl.size, "opcode": wl.opcode}})
                });
                match r {
                    Ok(ev) => c.tr.ev(ev),
                    Err(m) => c.tr.ev(json!({"ev": "ParseHdr", "bytes": b(&b6), "res": panic_res(&m)})),
                }
            }
            let mut big = vec![0u8; rng.gen_range(0..600)];
            rng.fill_bytes(&mut big);
            c.call(&mut cl, "dec", &big, via);
            c.call(&mut sv, "dec", &big, via);
            // a peer that keeps sending: more than 65 536 bytes through each decrypter (one large chunk, then headers) -
            // counters of any width must not overflow into a panic
            if round % 50 == 0 {
                let mut huge = vec![0u8; 66_000];
                rng.fill_bytes(&mut huge);
                c.call(&mut cl, "dec", &huge, via);
                c.call(&mut sv, "dec", &huge, via);
                // ... and in three chunks of 30 000 (each below 2^16, their sum above), and in 300 single bytes
                for _ in 0..3 {
                    c.call(&mut cl, "dec", &huge[..30_000], via);
                    c.call(&mut sv, "dec", &huge[..30_000], via);
                    c.call(&mut cl, "enc", &huge[..30_000], via);
                    c.call(&mut sv, "enc", &huge[..30_000], via);
                }
                for k in 0..300usize {
                    c.call(&mut cl, "dec", &huge[k..k + 1], via);
                    c.call(&mut sv, "dec", &huge[k..k + 1], via);
                }
                // ... and in 70 000 calls of one byte (more calls than a 16-bit counter holds)
                for d in ["dec", "enc"] {
                    c.bulk_calls(&mut cl, d, 70_000, via);
                    c.bulk_calls(&mut sv, d, 70_000, via);
                }
                rng.fill_bytes(&mut g6);
                c.dec_client_hdr(&mut sv, g6, via);
                c.call(&mut cl, "dec", &huge[..9], via);
                c.call(&mut cl, "enc", &huge, via);
                c.call(&mut sv, "enc", &huge, via);
                c.call(&mut sv, "enc", &huge[..5], via);
            }
            // a peer that sends nothing: zero-length buffers through every raw entry point
            for d in ["dec", "enc"] {
                c.call(&mut cl, d, &[], via);
                c.call(&mut sv, d, &[], via);
            }
            c.call(&mut cl, "dec", &big[..big.len().min(3)], via);
            // hostile world-login values: proofs, seeds
            let mut pr = [0u8; 20];
            rng.fill_bytes(&mut pr);
            c.world_server(exp, "HOSTILE", rnd40(&mut rng), pr, rng.gen(), true, None);
            c.world_server(exp, "HOSTILE", [0u8; 40], [0u8; 20], 0, true, Some(0));
            c.world_server(exp, "HOSTILE", [0xff; 40], [0xff; 20], u32::MAX, true, Some(u32::MAX));
            c.world_client(exp, "HOSTILE", [0u8; 40], u32::MAX, true, Some(0));
        }
    }
    // headers at every alignment against the key / keystream blocks: none may panic (see alignment_section)
    alignment_section(&mut c, &mut rng, &EXPS);
    c.tr.finish()
}
