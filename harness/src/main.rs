//! wsh — conformance harness binding the TLA+ specification of wow_srp to the real crate.
//! usage: wsh <mode> --out trace.ndjson [--seed N] [--tier quick|thorough] [--scen file] [--n N]
//! Prints one summary line "HARNESS mode=<m> events=<n> scenarios=<k>".

mod auth;
mod authp;
mod aux;
mod cipher;
mod conn;
mod util;

fn main() {
    let argv: Vec<String> = std::env::args().collect();
    if argv.len() < 2 {
        eprintln!("usage: wsh <mode> [options]");
        std::process::exit(2);
    }
    util::install_quiet_panic_hook();
    let args = util::parse_args(&argv[2..]);
    let (events, scenarios) = match argv[1].as_str() {
        "auth" => auth::run_auth(&args),
        "tamper" => auth::run_tamper(&args),
        "reconnect" => auth::run_reconnect(&args),
        "interleave" => auth::run_interleave(&args),
        "pubkey" => auth::run_pubkey(&args),
        "clientgroups" => auth::run_clientgroups(&args),
        "adversary" => auth::run_adversary(&args),
        "degenerate" => auth::run_degenerate(&args),
        "ownkey" => auth::run_ownkey(&args),
        "pubkeysweep" => auth::run_pubkeysweep(&args),
        "norm" => aux::run_norm(&args),
        "pin" => aux::run_pin(&args),
        "integrity" => aux::run_integrity(&args),
        "matrix" => aux::run_matrix(&args),
        "xhunt" => aux::run_xhunt(&args),
        "rng" => aux::run_rng(&args),
        "world" => cipher::run_world(&args),
        "stream" => cipher::run_stream(&args),
        "sweep" => cipher::run_sweep(&args),
        "wrathhdr" => cipher::run_wrathhdr(&args),
        "hdrio" => cipher::run_hdrio(&args),
        "halves" => cipher::run_halves(&args),
        "hdradv" => cipher::run_hdradv(&args),
        m => {
            eprintln!("wsh: unknown mode {}", m);
            std::process::exit(2)
        }
    };
    println!("HARNESS mode={} events={} scenarios={}", argv[1], events, scenarios);
}
