//! Logging primitives for the login / reconnect API: each performs exactly one public call
//! of wow_srp (under catch_unwind), reads back what the API exposes, and writes one event.

use crate::util::*;
use serde_json::{json, Value};
use wow_srp::client::{SrpClient, SrpClientChallenge, SrpClientReconnection};
use wow_srp::normalized_string::NormalizedString;
use wow_srp::server::{SrpProof, SrpServer, SrpVerifier};
use wow_srp::PublicKey;

pub struct H {
    pub tr: Tr,
    next: u64,
    /// set by a driver while it performs an honest exchange; logged as "hon"
    pub honest: bool,
    /// deterministic mode (C19): every draw of the library is injected from this generator, so that
    /// two builds of the crate see identical randomness
    pub det: Option<rand::rngs::StdRng>,
    /// when set, unrelated calls into other parts of the library are made before every recorded call (util::noise)
    pub noisy: bool,
    noise_ctr: usize,
    /// the proof the server said it expected, from the last refused into_server
    pub last_expected: Option<[u8; 20]>,
}

/// every other string handed to the library is a CLONE of the constructed one (a clone is an equal, independent value)
pub fn ns(s: &str) -> NormalizedString {
    use std::sync::atomic::{AtomicUsize, Ordering};
    static N: AtomicUsize = AtomicUsize::new(0);
    let n = ns0(s);
    if N.fetch_add(1, Ordering::Relaxed) % 2 == 1 {
        let c = n.clone();
        drop(n);
        c
    } else {
        n
    }
}
fn ns0(s: &str) -> NormalizedString {
    match NormalizedString::new(s) {
        Ok(n) => n,
        Err(e) => {
            eprintln!("harness: scenario string {:?} rejected by NormalizedString: {}", s, e);
            std::process::exit(2)
        }
    }
}

impl H {
    pub fn new(tr: Tr) -> H {
        H { tr, next: 1, honest: false, det: None, noisy: false, noise_ctr: 0, last_expected: None }
    }
    fn maybe_noise(&mut self) {
        if self.noisy {
            self.noise_ctr += 1;
            crate::util::noise(self.noise_ctr);
        }
    }
    pub fn oid(&mut self) -> u64 {
        self.next += 1;
        self.next - 1
    }
    pub fn reset(&mut self, what: &str) {
        clear_hooks();
        self.tr.reset(what);
    }
    pub fn with_det(mut self, args: &Args) -> H {
        if args.extra.iter().any(|x| x == "det") {
            use rand::SeedableRng;
            self.det = Some(rand::rngs::StdRng::seed_from_u64(args.seed ^ 0xD37));
        }
        self
    }
    /// in deterministic mode: queue an injection for a draw the caller did not pin
    fn det_inject(&mut self, site: &str, len: usize, pinned: bool) {
        if pinned {
            return;
        }
        if let Some(r) = self.det.as_mut() {
            use rand::RngCore;
            let mut v = vec![0u8; len];
            r.fill_bytes(&mut v);
            inject(site, &v);
        }
    }

    pub fn register(&mut self, user: &str, pass: &str, salt: Option<&[u8]>) -> Option<(u64, SrpVerifier)> {
        self.maybe_noise();
        let o = self.oid();
        let (u, p) = (ns(user), ns(pass));
        clear_hooks();
        if let Some(s) = salt {
            inject("Salt", s);
        }
        self.det_inject("Salt", 32, salt.is_some());
        let r = guard(|| SrpVerifier::from_username_and_password(u, p));
        let d = draws();
        match r {
            Ok(v) => {
                self.tr.ev(json!({"ev": "Register", "o": o, "user": cps(user), "pass": cps(pass),
                    "res": {"kind": "ok", "U": b(v.username().as_bytes()), "v": b(v.password_verifier()), "salt": b(v.salt())},
                    "draws": d}));
                Some((o, v))
            }
            Err(m) => {
                self.tr.ev(json!({"ev": "Register", "o": o, "user": cps(user), "pass": cps(pass), "res": panic_res(&m), "draws": d}));
                None
            }
        }
    }

    pub fn import(&mut self, user: &str, v: [u8; 32], salt: [u8; 32]) -> (u64, SrpVerifier) {
        self.maybe_noise();
        let o = self.oid();
        clear_hooks();
        let sv = SrpVerifier::from_database_values(ns(user), v, salt);
        self.tr.ev(json!({"ev": "Import", "o": o, "user": cps(user), "v": b(&v), "salt": b(&salt),
            "res": {"kind": "ok", "U": b(sv.username().as_bytes()), "v": b(sv.password_verifier()), "salt": b(sv.salt())},
            "draws": draws()}));
        (o, sv)
    }

    pub fn export(&mut self, o: u64, v: &SrpVerifier) -> (String, [u8; 32], [u8; 32]) {
        clear_hooks();
        let r = (v.username().to_string(), *v.password_verifier(), *v.salt());
        self.tr.ev(json!({"ev": "Export", "o": o,
            "res": {"kind": "ok", "U": b(r.0.as_bytes()), "v": b(&r.1), "salt": b(&r.2)}, "draws": draws()}));
        r
    }

    pub fn into_proof(&mut self, o: u64, v: SrpVerifier, bkey: Option<&[u8]>) -> Option<(u64, SrpProof)> {
        self.maybe_noise();
        let o2 = self.oid();
        clear_hooks();
        if let Some(k) = bkey {
            inject("PrivateKey", k);
        }
        self.det_inject("PrivateKey", 32, bkey.is_some());
        let consumed = o;
        let v = if o % 2 == 1 { let c = v.clone(); drop(v); c } else { v };
        let r = guard(move || v.into_proof());
        let d = draws();
        match r {
            Ok(p) => {
                self.tr.ev(json!({"ev": "IntoProof", "o": o, "o2": o2,
                    "res": {"kind": "ok", "B": b(p.server_public_key()), "salt": b(p.salt())}, "draws": d}));
                self.drop_event(consumed);
                Some((o2, p))
            }
            Err(m) => {
                self.tr.ev(json!({"ev": "IntoProof", "o": o, "o2": o2, "res": panic_res(&m), "draws": d}));
                self.drop_event(consumed);
                None
            }
        }
    }

    /// PublicKey::from_le_bytes
    pub fn pubkey(&mut self, bytes: [u8; 32]) -> Option<PublicKey> {
        self.maybe_noise();
        clear_hooks();
        let r = guard(|| PublicKey::from_le_bytes(bytes));
        let d = draws();
        match r {
            Ok(Ok(k)) => {
                self.tr.ev(json!({"ev": "PubKey", "bytes": b(&bytes), "res": {"kind": "ok", "bytes": b(k.as_le_bytes())}, "draws": d}));
                Some(k)
            }
            Ok(Err(e)) => {
                let kind = match e {
                    wow_srp::error::InvalidPublicKeyError::PublicKeyIsZero => "zero",
                    wow_srp::error::InvalidPublicKeyError::PublicKeyModLargeSafePrimeIsZero => "modN",
                };
                self.tr.ev(json!({"ev": "PubKey", "bytes": b(&bytes), "res": {"kind": "err", "err": kind, "display": b(e.to_string().as_bytes()),
                    "viaSrpError": b(wow_srp::error::SrpError::from(e).to_string().as_bytes())}, "draws": d}));
                None
            }
            Err(m) => {
                self.tr.ev(json!({"ev": "PubKey", "bytes": b(&bytes), "res": panic_res(&m), "draws": d}));
                None
            }
        }
    }

    #[allow(clippy::too_many_arguments)]
    pub fn client_new(&mut self, user: &str, pass: &str, g: u8, n: [u8; 32], bpub: PublicKey, salt: [u8; 32], akey: Option<&[u8]>)
        -> Option<(u64, SrpClientChallenge)> {
        self.maybe_noise();
        let o = self.oid();
        let (u, p) = (ns(user), ns(pass));
        clear_hooks();
        if let Some(k) = akey {
            inject("PrivateKey", k);
        }
        self.det_inject("PrivateKey", 32, akey.is_some());
        let bb = *bpub.as_le_bytes();
        let r = guard(move || SrpClientChallenge::new(u, p, g, n, bpub, salt));
        let d = draws();
        let head = json!({"ev": "ClientNew", "o": o, "user": cps(user), "pass": cps(pass), "g": g, "N": b(&n), "B": b(&bb), "salt": b(&salt)});
        let mut e = head.as_object().unwrap().clone();
        e.insert("draws".into(), d);
        match r {
            Ok(c) => {
                e.insert("res".into(), json!({"kind": "ok", "A": b(c.client_public_key()), "M1": b(c.client_proof())}));
                self.tr.ev(Value::Object(e));
                Some((o, c))
            }
            Err(m) => {
                e.insert("res".into(), panic_res(&m));
                self.tr.ev(Value::Object(e));
                None
            }
        }
    }

    pub fn into_server(&mut self, o: u64, p: SrpProof, a: PublicKey, m1: [u8; 20]) -> Option<(u64, SrpServer, [u8; 20])> {
        self.maybe_noise();
        let o2 = self.oid();
        clear_hooks();
        self.det_inject("ReconnectData", 16, false);
        let ab = *a.as_le_bytes();
        let consumed = o;
        let r = guard(move || p.into_server(a, m1));
        let d = draws();
        let mut e = json!({"ev": "IntoServer", "o": o, "o2": o2, "A": b(&ab), "M1": b(&m1), "hon": self.honest, "draws": d});
        match r {
            Ok(Ok((s, m2))) => {
                e["res"] = json!({"kind": "ok", "M2": b(&m2), "K": b(s.session_key()), "chal": b(s.reconnect_challenge_data())});
                self.tr.ev(e);
                self.drop_event(consumed);
                Some((o2, s, m2))
            }
            Ok(Err(err)) => {
                e["res"] = json!({"kind": "err", "client": b(&err.client_proof), "server": b(&err.server_proof), "display": b(err.to_string().as_bytes())});
                self.last_expected = Some(err.server_proof);
                self.tr.ev(e);
                self.drop_event(consumed);
                None
            }
            Err(m) => {
                e["res"] = panic_res(&m);
                self.tr.ev(e);
                self.drop_event(consumed);
                None
            }
        }
    }

    pub fn verify_server_proof(&mut self, o: u64, c: SrpClientChallenge, m2: [u8; 20]) -> Option<(u64, SrpClient)> {
        self.maybe_noise();
        let o2 = self.oid();
        clear_hooks();
        let consumed = o;
        let r = guard(move || c.verify_server_proof(m2));
        let d = draws();
        let mut e = json!({"ev": "VerifyServerProof", "o": o, "o2": o2, "M2": b(&m2), "hon": self.honest, "draws": d});
        match r {
            Ok(Ok(cl)) => {
                e["res"] = json!({"kind": "ok", "K": b(cl.session_key())});
                self.tr.ev(e);
                self.drop_event(consumed);
                Some((o2, cl))
            }
            Ok(Err(err)) => {
                e["res"] = json!({"kind": "err", "client": b(&err.client_proof), "server": b(&err.server_proof)});
                self.tr.ev(e);
                self.drop_event(consumed);
                None
            }
            Err(m) => {
                e["res"] = panic_res(&m);
                self.tr.ev(e);
                self.drop_event(consumed);
                None
            }
        }
    }

    pub fn reconnect_values(&mut self, o: u64, c: &SrpClient, schal: [u8; 16], inject_cchal: Option<&[u8]>) -> Option<SrpClientReconnection> {
        self.maybe_noise();
        clear_hooks();
        if let Some(k) = inject_cchal {
            inject("ReconnectData", k);
        }
        self.det_inject("ReconnectData", 16, inject_cchal.is_some());
        let r = guard(|| c.calculate_reconnect_values(schal));
        let d = draws();
        let mut e = json!({"ev": "ReconnectValues", "o": o, "schal": b(&schal), "draws": d});
        match r {
            Ok(v) => {
                e["res"] = json!({"kind": "ok", "cchal": b(&v.challenge_data), "proof": b(&v.proof)});
                self.tr.ev(e);
                Some(v)
            }
            Err(m) => {
                e["res"] = panic_res(&m);
                self.tr.ev(e);
                None
            }
        }
    }

    pub fn verify_reconnect(&mut self, o: u64, s: &mut SrpServer, cdata: [u8; 16], proof: [u8; 20], note: &str) -> Option<bool> {
        self.maybe_noise();
        clear_hooks();
        self.det_inject("ReconnectRefresh", 16, false);
        let before = *s.reconnect_challenge_data();
        let r = guard(|| s.verify_reconnection_attempt(cdata, proof));
        let d = draws();
        let after = *s.reconnect_challenge_data();
        let mut e = json!({"ev": "VerifyReconnect", "o": o, "cdata": b(&cdata), "proof": b(&proof), "note": note, "draws": d});
        match r {
            Ok(v) => {
                e["res"] = json!({"kind": "bool", "ok": v, "chalBefore": b(&before), "chalAfter": b(&after)});
                self.tr.ev(e);
                Some(v)
            }
            Err(m) => {
                e["res"] = panic_res(&m);
                self.tr.ev(e);
                None
            }
        }
    }

    /// n rejected reconnect attempts in a row (pseudo-random data and proofs), recorded as ONE event: how many were
    /// refused, whether any call panicked, and the challenge on offer afterwards
    pub fn bulk_reject(&mut self, o: u64, s: &mut SrpServer, n: u32) -> bool {
        clear_hooks();
        let mut rejected = 0u32;
        let mut x: u64 = 0x9E37_79B9_7F4A_7C15 ^ (n as u64);
        let mut r: Result<(), String> = Ok(());
        for _ in 0..n {
            x = x.wrapping_mul(6364136223846793005).wrapping_add(1442695040888963407);
            let mut cd = [0u8; 16];
            cd[..8].copy_from_slice(&x.to_le_bytes());
            let mut pr = [0u8; 20];
            pr[4..12].copy_from_slice(&x.rotate_left(17).to_le_bytes());
            self.det_inject("ReconnectRefresh", 16, false);
            match guard(|| s.verify_reconnection_attempt(cd, pr)) {
                Ok(false) => rejected += 1,
                Ok(true) => {}
                Err(m) => { r = Err(m); break; }
            }
            clear_hooks();
        }
        let after = *s.reconnect_challenge_data();
        let res = match &r { Ok(_) => json!({"kind": "ok"}), Err(m) => panic_res(m) };
        self.tr.ev(json!({"ev": "BulkReject", "o": o, "n": n, "rejected": rejected, "chalAfter": b(&after), "res": res, "draws": []}));
        r.is_ok()
    }

    pub fn clone_event(&mut self, o: u64) -> u64 {
        let o2 = self.oid();
        self.tr.ev(json!({"ev": "Clone", "o": o, "o2": o2, "res": {"kind": "ok"}, "draws": []}));
        o2
    }

    pub fn drop_event(&mut self, o: u64) {
        self.tr.ev(json!({"ev": "Drop", "o": o}));
    }

    pub fn agree(&mut self, so: u64, co: u64, sk: &[u8; 40], ck: &[u8; 40]) {
        self.tr.ev(json!({"ev": "Agree", "so": so, "co": co, "sk": b(sk), "ck": b(ck)}));
    }

    pub fn session_key(&mut self, o: u64, k: &[u8; 40]) {
        self.tr.ev(json!({"ev": "SessionKey", "o": o, "res": {"kind": "ok", "K": b(k)}, "draws": []}));
    }

    pub fn interleave(&mut self, s: [u8; 32]) {
        clear_hooks();
        let r = guard(|| wow_srp::verif_hooks::interleave(s));
        let mut e = json!({"ev": "Interleave", "S": b(&s), "draws": draws()});
        match r {
            Ok(k) => e["res"] = json!({"kind": "ok", "K": b(&k)}),
            Err(m) => e["res"] = panic_res(&m),
        }
        self.tr.ev(e);
    }
}
