//! Drivers for the login / reconnect properties (C01, C02, C03, C04, C05, C14).
//! They choose inputs (seeded RNG, TLC-generated scenario files, committed corpus) and call
//! the logging primitives of authp.rs.  No SRP arithmetic is re-implemented here.

use crate::authp::*;
use crate::util::*;
use rand::rngs::StdRng;
use rand::{Rng, RngCore, SeedableRng};
use serde_json::Value;
use sha1::{Digest, Sha1};
use wow_srp::client::SrpClient;
use wow_srp::server::{SrpProof, SrpServer};

pub const N_LE: [u8; 32] = wow_srp::LARGE_SAFE_PRIME_LITTLE_ENDIAN;

pub const CREDS: [(&str, &str); 10] = [
    ("A", "A"),
    ("abcdefghijklmnop", "0123456789AbCdEf"),
    ("us:er\"n;am\\e", "p:a\"s;s\\w~ `"),
    ("12345", "67890"),
    ("MixedCase", "PaSsWoRd"),
    ("sp ace", " lead trail "),
    ("z", "{|}~[]^_@?>=<"),
    ("!#$%&'()*+,-./", "aZ"),
    ("12#1", "12#2"),
    ("a@b.c", "p w~"),
];

pub fn case_variant(s: &str, k: usize) -> String {
    match k % 4 {
        0 => s.to_string(),
        1 => s.to_ascii_lowercase(),
        2 => s.to_ascii_uppercase(),
        _ => s
            .chars()
            .enumerate()
            .map(|(i, c)| if i % 2 == 0 { c.to_ascii_lowercase() } else { c.to_ascii_uppercase() })
            .collect(),
    }
}

fn rnd32(r: &mut StdRng) -> [u8; 32] {
    let mut a = [0u8; 32];
    r.fill_bytes(&mut a);
    a
}

fn rand_cred(r: &mut StdRng) -> String {
    let n = r.gen_range(1..=16);
    (0..n).map(|_| r.gen_range(0x20u8..=0x7e) as char).collect()
}

pub struct Session {
    pub so: u64,
    pub server: SrpServer,
    pub co: u64,
    pub client: SrpClient,
}

pub struct Params<'a> {
    pub user: &'a str,
    pub pass: &'a str,
    pub typed_user: &'a str,
    pub typed_pass: &'a str,
    pub salt: Option<[u8; 32]>,
    pub b: Option<[u8; 32]>,
    pub a: Option<[u8; 32]>,
    pub storage: bool,
}

/// One honest login. Returns the session if both sides completed.
pub fn honest_login(h: &mut H, p: &Params) -> Option<Session> {
    h.honest = true;
    let r = honest_login_inner(h, p);
    h.honest = false;
    r
}

fn honest_login_inner(h: &mut H, p: &Params) -> Option<Session> {
    let (mut vo, mut v) = h.register(p.user, p.pass, p.salt.as_ref().map(|s| &s[..]))?;
    if p.storage {
        let (u, ver, salt) = h.export(vo, &v);
        // (a name the library hands out but would not accept back ends the scenario; the Export event shows it)
        if wow_srp::normalized_string::NormalizedString::new(u.as_str()).is_err() {
            return None;
        }
        let (o2, v2) = h.import(&u, ver, salt);
        vo = o2;
        v = v2;
    }
    let (po, proof) = h.into_proof(vo, v, p.b.as_ref().map(|s| &s[..]))?;
    let bpub = h.pubkey(*proof.server_public_key())?;
    let salt = *proof.salt();
    let (co, chal) = h.client_new(p.typed_user, p.typed_pass, wow_srp::GENERATOR, N_LE, bpub, salt, p.a.as_ref().map(|s| &s[..]))?;
    let apub = h.pubkey(*chal.client_public_key())?;
    let m1 = *chal.client_proof();
    let (so, server, m2) = h.into_server(po, proof, apub, m1)?;
    let (co2, client) = h.verify_server_proof(co, chal, m2)?;
    h.session_key(so, server.session_key());
    h.session_key(co2, client.session_key());
    h.agree(so, co2, server.session_key(), client.session_key());
    Some(Session { so, server, co: co2, client })
}

pub fn good_reconnect(h: &mut H, s: &mut Session) -> Option<bool> {
    let schal = *s.server.reconnect_challenge_data();
    let r = h.reconnect_values(s.co, &s.client, schal, None)?;
    h.verify_reconnect(s.so, &mut s.server, r.challenge_data, r.proof, "good")
}

/// C01: honest logins over credential classes x case variants x storage round trip x
/// key classes (random, corpus of rare classes) x reconnect counts.
pub fn run_auth(args: &Args) -> (u64, u64) {
    let mut h = H::new(Tr::create(&args.out)).with_det(args);
    let mut rng = StdRng::seed_from_u64(args.seed);
    let thorough = args.tier == "thorough";
    let mut k = 0usize;
    for (ci, (u, p)) in CREDS.iter().enumerate() {
        for variant in 0..4 {
            for storage in [false, true] {
                let recon = [0usize, 1, 3][(k + ci) % 3];
                k += 1;
                h.reset("auth-grid");
                let tu = case_variant(u, variant);
                let tp = case_variant(p, variant + 1);
                let prm = Params { user: u, pass: p, typed_user: &tu, typed_pass: &tp, salt: None, b: None, a: None, storage };
                if let Some(mut s) = honest_login(&mut h, &prm) {
                    for _ in 0..recon {
                        good_reconnect(&mut h, &mut s);
                    }
                }
            }
        }
    }
    // degenerate salts in the stored record: all zero, all 0xFF, zero at either end (the client does not reject them)
    if h.det.is_none() {
        for (k, salt) in [[0u8; 32], [0xff; 32], { let mut x = [0x11u8; 32]; x[0] = 0; x }, { let mut x = [0x22u8; 32]; x[31] = 0; x }].iter().enumerate() {
            h.reset("auth-salts");
            let (u, p) = CREDS[k % CREDS.len()];
            let prm = Params { user: u, pass: p, typed_user: u, typed_pass: p, salt: Some(*salt), b: None, a: None, storage: true };
            if let Some(mut sess) = honest_login(&mut h, &prm) {
                good_reconnect(&mut h, &mut sess);
            }
        }
    }
    // corpus of rare key classes (inputs only; TLC re-establishes the class from the trace)
    if let Some(path) = &args.scen {
        for c in read_ndjson(path) {
            h.reset("auth-corpus");
            let user = c["user"].as_str().unwrap().to_string();
            let pass = c["pass"].as_str().unwrap().to_string();
            let salt = arr32(&jbytes(&c["salt"]));
            let bk = arr32(&jbytes(&c["b"]));
            let ak = arr32(&jbytes(&c["a"]));
            let tu = case_variant(&user, 1);
            let prm = Params { user: &user, pass: &pass, typed_user: &tu, typed_pass: &pass, salt: Some(salt), b: Some(bk), a: Some(ak), storage: true };
            if let Some(mut s) = honest_login(&mut h, &prm) {
                good_reconnect(&mut h, &mut s);
            }
        }
    }
    // classes found by trial through the public accessors: a verifier / server key / client key whose top byte(s)
    // are zero (must be zero-padded, once per 256), each taken through the storage round trip
    if h.det.is_none() {
        for round in 0..(if thorough { 12 } else { 3 }) {
            h.reset("auth-hunt");
            let (u, p) = CREDS[(round + 2) % CREDS.len()];
            // salt such that v is short
            let mut salt = None;
            for _ in 0..4000 {
                let v = wow_srp::server::SrpVerifier::from_username_and_password(ns(u), ns(p));
                if v.password_verifier()[31] == 0 {
                    salt = Some(*v.salt());
                    break;
                }
            }
            // server key such that B is short (tried on a throw-away clone of the same record)
            let mut bk = None;
            if let Some(s) = salt {
                clear_hooks();
                inject("Salt", &s);
                let v = wow_srp::server::SrpVerifier::from_username_and_password(ns(u), ns(p));
                for _ in 0..4000 {
                    clear_hooks();
                    let pr = v.clone().into_proof();
                    if pr.server_public_key()[31] == 0 {
                        bk = wow_srp::verif_hooks::take_log().last().map(|d| arr32(&d.used));
                        break;
                    }
                }
                clear_hooks();
            }
            // client key such that A is short (A = g^a does not depend on the account)
            let mut ak = None;
            {
                let bp = wow_srp::PublicKey::from_le_bytes({ let mut x = [0u8; 32]; x[0] = 9; x }).unwrap();
                for _ in 0..4000 {
                    clear_hooks();
                    let cch = wow_srp::client::SrpClientChallenge::new(ns("A"), ns("A"), 7, N_LE, bp, [0u8; 32]);
                    if cch.client_public_key()[31] == 0 {
                        ak = wow_srp::verif_hooks::take_log().last().map(|d| arr32(&d.used));
                        break;
                    }
                }
                clear_hooks();
            }
            let prm = Params { user: u, pass: p, typed_user: &case_variant(u, round), typed_pass: &case_variant(p, round + 1), salt, b: bk, a: if round % 2 == 0 { ak } else { None }, storage: true };
            if let Some(mut sess) = honest_login(&mut h, &prm) {
                good_reconnect(&mut h, &mut sess);
            }
            // salts for which x = H(salt | H(U:P)) starts or ends with a zero byte (chosen with SHA-1 only; the values
            // themselves are judged by the specification)
            let up = sha1cat(&[u.to_ascii_uppercase().as_bytes(), b":", p.to_ascii_uppercase().as_bytes()]);
            for want in [0usize, 19] {
                let mut salt2 = [0u8; 32];
                for _ in 0..3000 {
                    rng.fill_bytes(&mut salt2);
                    if sha1cat(&[&salt2, &up])[want] == 0 {
                        break;
                    }
                }
                h.reset("auth-hunt-x");
                let prm = Params { user: u, pass: p, typed_user: u, typed_pass: p, salt: Some(salt2), b: None, a: None, storage: false };
                honest_login(&mut h, &prm);
            }
        }
    }
    // consecutive logins (same thread) for RELATED user names: permutations across positions 8 apart / 4 apart,
    // halves swapped, rotations, repeated halves, one name a prefix of the other, same name with another password -
    // no state may be carried from one login into the next
    {
        let fams: Vec<Vec<&str>> = vec![
            vec!["ABCDEFGHIJ", "IBCDEFGHAJ", "AJCDEFGHIB"],
            vec!["12345678ABCDEFGH", "ABCDEFGH12345678", "1234ABCD5678EFGH"],
            vec!["ABCDABCDABCDABCD", "AAAAAAAAAAAAAAAA", "ABABABABABABABAB", "ABCDEFGHABCDEFGH"],
            vec!["ROTATE", "OTATER", "TATERO", "ETATOR"],
            vec!["PRE", "PREFIX", "PREFIXES", "PREFIXESPREFIXES"],
            vec!["AB", "BA", "A", "B", "AA"],
        ];
        // one user name, passwords of decreasing and increasing length one after the other (a prefix, a longer one, one character)
        h.reset("auth-related-passwords");
        for name in ["CAROL", "carol16characters"[..16].as_ref()] {
            for pass in ["PW123LONGER", "PW123", "PW123LONGERSTILL", "P", "PW123LONGER", "PW", "pw123longer"] {
                let prm = Params { user: name, pass, typed_user: name, typed_pass: pass, salt: None, b: None, a: None, storage: false };
                honest_login(&mut h, &prm);
            }
        }
        for (fi, fam) in fams.iter().enumerate() {
            h.reset("auth-related-names");
            for rep in 0..2 {
                for (ni, name) in fam.iter().enumerate() {
                    let pass = if rep == 0 { "SAMEPASS".to_string() } else { format!("PW{}{}", fi, ni) };
                    let prm = Params { user: name, pass: &pass, typed_user: &case_variant(name, ni + rep), typed_pass: &pass, salt: None, b: None, a: None, storage: (ni + rep) % 2 == 0 };
                    if let Some(mut sess) = honest_login(&mut h, &prm) {
                        if ni % 2 == 0 {
                            good_reconnect(&mut h, &mut sess);
                        }
                    }
                }
            }
        }
    }
    // three logins INTERLEAVED step by step on this thread (all register, then all proofs, all clients, all servers in
    // another order, all client verdicts, reconnects in turn): each object carries its own state, nothing is shared
    // accounts whose x = H(salt | H(U:P)) has an all-zero ALIGNED 32-bit word (corpus/x_zero_words.ndjson: four salts found by
    // a search over 4.5 * 10^9 salts, one per word position; inputs only - the specification recomputes x and counts the class)
    {
        let root = std::env::var("VERIF_ROOT").unwrap_or_else(|_| "/verif".to_string());
        let path = format!("{}/corpus/x_zero_words.ndjson", root);
        if std::path::Path::new(&path).exists() {
            h.reset("auth-x-zero-words");
            for (k, e) in read_ndjson(&path).iter().enumerate() {
                let (u, p) = (e["user"].as_str().unwrap_or("A").to_string(), e["pass"].as_str().unwrap_or("A").to_string());
                let salt = arr32(&jbytes(&e["salt"]));
                for variant in 0..2 {
                    let prm = Params { user: &u, pass: &p, typed_user: &case_variant(&u, k + variant), typed_pass: &case_variant(&p, k), salt: Some(salt), b: None, a: None, storage: variant == 1 };
                    if let Some(mut sess) = honest_login(&mut h, &prm) {
                        good_reconnect(&mut h, &mut sess);
                    }
                }
            }
        }
    }
    // server keys chosen NEAR k*v (the client subtracts k*g^x from B): B - k*v with whole 32-bit / 64-bit words of ones or
    // zeros, B equal to k*v in some words with a borrow coming from below, B = k*v - 1, k*v + 1, k*v + 2^(32 i) - 1.
    // With the built-in group (7 generates every residue) each such B is the key of an honest server for SOME private key,
    // so the specification's verdict on the client's proof is an honest server's verdict.
    {
        h.reset("auth-borrow-chains");
        for (ci, (u, p)) in CREDS.iter().enumerate().take(if thorough { 10 } else { 3 }) {
            let Some((_vo, ver)) = h.register(u, p, None) else { continue };
            let v = *ver.password_verifier();
            let salt = *ver.salt();
            let kv = crate::util::le_add_mod(&crate::util::le_add_mod(&v, &v, &N_LE), &v, &N_LE);
            let mut ds: Vec<[u8; 32]> = vec![];
            let one = { let mut x = [0u8; 32]; x[0] = 1; x };
            ds.push(one);
            ds.push(crate::util::le_sub_mod(&[0u8; 32], &one, &N_LE));          // -1
            for w in 0..8usize {
                for width in [4usize, 8] {
                    if 4 * w + width > 32 { continue; }
                    let mut d = rnd32(&mut rng);
                    d[31] &= 0x3F;
                    for x in d.iter_mut().skip(4 * w).take(width) { *x = 0xFF; }
                    ds.push(d);
                    let mut d = rnd32(&mut rng);
                    d[31] &= 0x3F;
                    for x in d.iter_mut().skip(4 * w).take(width) { *x = 0; }
                    ds.push(d);
                    let mut d = [0u8; 32];                                     // 2^(32 w + 8 width) - 1
                    for x in d.iter_mut().take(4 * w + width) { *x = 0xFF; }
                    if d[31] < 0x80 { ds.push(d); }
                }
            }
            for (di, d) in ds.iter().enumerate() {
                if !thorough && (di + ci) % 2 == 1 && di > 4 { continue; }
                for bb in [crate::util::le_add_mod(&kv, d, &N_LE), crate::util::le_sub_mod(&kv, d, &N_LE)] {
                    let Some(bpub) = h.pubkey(bb) else { continue };
                    h.client_new(u, p, wow_srp::GENERATOR, N_LE, bpub, salt, None);
                }
            }
        }
    }
    // the same grid once more with NOISE: before every recorded call, unrelated functions of other modules run on this
    // thread (PIN hashes with rejected PINs, integrity checks, refused keys and strings, header crypto, matrix cards,
    // a refused login, a small-group client) - no call may leave anything behind for the next one
    h.noisy = true;
    for (ci, (u, p)) in CREDS.iter().enumerate() {
        h.reset("auth-noise");
        let prm = Params { user: u, pass: p, typed_user: &case_variant(u, ci), typed_pass: &case_variant(p, ci + 1), salt: None, b: None, a: None, storage: ci % 2 == 0 };
        if let Some(mut sess) = honest_login(&mut h, &prm) {
            good_reconnect(&mut h, &mut sess);
            good_reconnect(&mut h, &mut sess);
        }
    }
    h.noisy = false;
    for round in 0..(if thorough { 30 } else { 4 }) {
        h.reset("auth-interleaved");
        h.noisy = round % 2 == 1;
        h.honest = true;
        let who: Vec<(String, String)> = (0..3).map(|i| if (round + i) % 2 == 0 { (CREDS[(round + i) % CREDS.len()].0.to_string(), CREDS[(round + i) % CREDS.len()].1.to_string()) } else { (rand_cred(&mut rng), rand_cred(&mut rng)) }).collect();
        let vs: Vec<_> = who.iter().map(|(u, p)| h.register(u, p, None)).collect();
        let mut proofs = vec![];
        for v in vs { proofs.push(v.and_then(|(vo, v)| h.into_proof(vo, v, None))); }
        let mut clients = vec![];
        for (i, pr) in proofs.iter().enumerate().rev() {
            clients.push((i, pr.as_ref().and_then(|(_, p)| {
                let bpub = h.pubkey(*p.server_public_key())?;
                h.client_new(&who[i].0, &who[i].1, wow_srp::GENERATOR, N_LE, bpub, *p.salt(), None)
            })));
        }
        clients.sort_by_key(|c| c.0);
        // in every third round each server step runs on a FRESH thread (typestates are Send: an object built on one
        // thread is completed on another)
        let migrate = round % 3 == 2;
        let order = [[1usize, 2, 0], [2, 0, 1], [0, 2, 1]][round % 3];
        let mut servers: Vec<Option<(u64, wow_srp::server::SrpServer, [u8; 20])>> = vec![None, None, None];
        let mut proofs: Vec<Option<_>> = proofs.into_iter().collect();
        for i in order {
            if let (Some((po, p)), Some((_, c))) = (proofs[i].take(), clients[i].1.as_ref()) {
                if let Some(apub) = h.pubkey(*c.client_public_key()) {
                    let m1 = *c.client_proof();
                    servers[i] = if migrate {
                        let hr = &mut h;
                        std::thread::scope(|sc| sc.spawn(move || hr.into_server(po, p, apub, m1)).join().ok().flatten())
                    } else {
                        h.into_server(po, p, apub, m1)
                    };
                }
            }
        }
        let mut sessions = vec![];
        for (i, c) in clients.into_iter() {
            if let (Some((co, chal)), Some((so, server, m2))) = (c, servers[i].take()) {
                if let Some((co2, client)) = h.verify_server_proof(co, chal, m2) {
                    h.agree(so, co2, server.session_key(), client.session_key());
                    sessions.push(Session { so, server, co: co2, client });
                }
            }
        }
        for k in 0..2 {
            for s in sessions.iter_mut() {
                if migrate && k == 1 {
                    let hr = &mut h;
                    std::thread::scope(|sc| { let _ = sc.spawn(move || good_reconnect(hr, s)).join(); });
                } else {
                    good_reconnect(&mut h, s);
                }
            }
        }
        h.honest = false;
        h.noisy = false;
    }
    // random sessions: random credentials, genuine RNG draws (nothing injected)
    let n = args.n.unwrap_or(if thorough { 20000 } else { 400 });
    for i in 0..n {
        h.reset("auth-random");
        let u = rand_cred(&mut rng);
        let p = rand_cred(&mut rng);
        let tu = case_variant(&u, rng.gen_range(0..4));
        let tp = case_variant(&p, rng.gen_range(0..4));
        // a third of the sessions use short injected keys (zero-padded A, B)
        let (a, bk) = if i % 3 == 0 {
            let mut a = [0u8; 32];
            let mut bb = [0u8; 32];
            let la = rng.gen_range(1..=3);
            rng.fill_bytes(&mut a[..la]);
            let lb = rng.gen_range(1..=3);
            rng.fill_bytes(&mut bb[..lb]);
            (Some(a), Some(bb))
        } else {
            (None, None)
        };
        let prm = Params { user: &u, pass: &p, typed_user: &tu, typed_pass: &tp, salt: None, b: bk, a, storage: i % 2 == 0 };
        if let Some(mut s) = honest_login(&mut h, &prm) {
            if i % 5 == 0 {
                good_reconnect(&mut h, &mut s);
            }
        }
    }
    h.tr.finish()
}

fn flip(v: &[u8], bit: usize) -> Vec<u8> {
    let mut o = v.to_vec();
    o[bit / 8] ^= 1 << (bit % 8);
    o
}
fn a20(v: &[u8]) -> [u8; 20] {
    let mut a = [0u8; 20];
    a.copy_from_slice(v);
    a
}
fn a16(v: &[u8]) -> [u8; 16] {
    let mut a = [0u8; 16];
    a.copy_from_slice(v);
    a
}

fn clone_proof(h: &mut H, po: u64, p: &SrpProof) -> (u64, SrpProof) {
    (h.clone_event(po), p.clone())
}

/// C02: every perturbation of a baseline session starts from a clone of the same typestate.
pub fn run_tamper(args: &Args) -> (u64, u64) {
    let mut h = H::new(Tr::create(&args.out)).with_det(args);
    let mut rng = StdRng::seed_from_u64(args.seed);
    let thorough = args.tier == "thorough";
    let baselines = args.n.unwrap_or(if thorough { 40 } else { 3 }) as usize;
    for bi in 0..baselines {
        h.reset("tamper");
        let (u, p) = if bi < CREDS.len() { (CREDS[bi].0.to_string(), CREDS[bi].1.to_string()) } else { (rand_cred(&mut rng), rand_cred(&mut rng)) };
        let a = rnd32(&mut rng);
        let Some((vo, v)) = h.register(&u, &p, None) else { continue };
        let Some((po, proof)) = h.into_proof(vo, v, None) else { continue };
        let bbytes = *proof.server_public_key();
        let salt = *proof.salt();
        let Some(bpub) = h.pubkey(bbytes) else { continue };
        let Some((co, chal)) = h.client_new(&u, &p, 7, N_LE, bpub, salt, Some(&a)) else { continue };
        let abytes = *chal.client_public_key();
        let m1 = *chal.client_proof();
        let Some(apub) = h.pubkey(abytes) else { continue };
        // the untouched exchange
        let (pc, pp) = clone_proof(&mut h, po, &proof);
        let Some((_so, _server, m2)) = h.into_server(pc, pp, apub, m1) else { continue };
        let _server_key: Option<[u8; 40]> = Some(*_server.session_key());
        let cc = h.clone_event(co);
        h.verify_server_proof(cc, chal.clone(), m2);
        // directly after the success: the captured (A, M1) replayed against a NEW proof of the same account (new b, B),
        // against the account after a password change, and against the same record re-imported - all must be refused
        for variant in 0..3 {
            let v2 = match variant {
                0 => h.register(&u, &p, None),
                1 => h.register(&u, &format!("{}x", &p[..p.len().min(15)]), None),
                _ => h.register(&u, &p, Some(&salt[..])),
            };
            if let Some((vo2, v2)) = v2 {
                if let Some((po2, proof2)) = h.into_proof(vo2, v2, None) {
                    h.into_server(po2, proof2, apub, m1);
                }
            }
        }

        let all = thorough || bi == 0;
        let step = if all { 1 } else { 7 };
        // M1 bit flips
        for bit in (0..160).step_by(step) {
            let (pc, pp) = clone_proof(&mut h, po, &proof);
            h.into_server(pc, pp, apub, a20(&flip(&m1, bit)));
        }
        // M2 bit flips
        for bit in (0..160).step_by(step) {
            let cc = h.clone_event(co);
            h.verify_server_proof(cc, chal.clone(), a20(&flip(&m2, bit)));
        }
        // differences in several bytes at once (same mask in two bytes, swapped bytes, complemented tail)
        for j in 0..(if all { 40 } else { 10 }) {
            let (x, y) = ((j * 3 + bi) % 20, (j * 7 + 5 + bi) % 20);
            if x == y {
                continue;
            }
            let mut t = m1;
            t[x] ^= 1 << (j % 8);
            t[y] ^= 1 << (j % 8);
            let (pc, pp) = clone_proof(&mut h, po, &proof);
            h.into_server(pc, pp, apub, t);
            let mut t2 = m2;
            t2[x] ^= 1 << (j % 8);
            t2[y] ^= 1 << (j % 8);
            let cc = h.clone_event(co);
            h.verify_server_proof(cc, chal.clone(), t2);
            let mut t3 = m1;
            t3.swap(x, y);
            if t3 != m1 {
                let (pc, pp) = clone_proof(&mut h, po, &proof);
                h.into_server(pc, pp, apub, t3);
            }
        }
        // proofs that agree with the right one on a prefix or suffix only, reversed, constant
        {
            let mut variants: Vec<[u8; 20]> = vec![[0u8; 20], [0xFFu8; 20]];
            for (src, k) in [(m1, 1 + bi % 19), (m1, 19 - bi % 19), (m2, 1 + (bi + 7) % 19), (m2, 10)] {
                let mut t = src;
                for x in t.iter_mut().skip(k) { *x = 0; }
                variants.push(t);
                let mut t = src;
                for x in t.iter_mut().take(k) { *x = 0; }
                variants.push(t);
            }
            let mut r = m1; r.reverse(); variants.push(r);
            let mut r = m2; r.reverse(); variants.push(r);
            // the digits of two neighbouring bytes / words regrouped (equal under an unpadded rendering)
            for (src, lim) in [(m1, 6usize), (m2, 6)] {
                let rv = crate::util::regroup_variants(&src);
                let stepby = (rv.len() / lim).max(1);
                for v in rv.iter().step_by(stepby).take(lim) { variants.push(a20(v)); }
            }
            for t in variants {
                if t != m1 {
                    let (pc, pp) = clone_proof(&mut h, po, &proof);
                    h.into_server(pc, pp, apub, t);
                }
                if t != m2 {
                    let cc = h.clone_event(co);
                    h.verify_server_proof(cc, chal.clone(), t);
                }
            }
        }
        // proofs an attacker who knows K could build from NEAR-MISS ingredients: the name in another spelling, the
        // other side's roles swapped, the salt reversed, H(N) xor H(g) left out - the server accepts the one M1 only
        if let Some(k) = _server_key {
            let mut xor = sha1cat(&[&N_LE]);
            let hg = sha1cat(&[&[7u8]]);
            for i in 0..20 { xor[i] ^= hg[i]; }
            let up = u.to_ascii_uppercase();
            let lo = u.to_ascii_lowercase();
            let mut rsalt = salt; rsalt.reverse();
            let cands: Vec<[u8; 20]> = vec![
                sha1cat(&[&xor, &sha1cat(&[lo.as_bytes()]), &salt, &abytes, &bbytes, &k]),
                sha1cat(&[&xor, &sha1cat(&[u.as_bytes()]), &salt, &abytes, &bbytes, &k]),
                sha1cat(&[&xor, &sha1cat(&[up.as_bytes()]), &salt, &bbytes, &abytes, &k]),
                sha1cat(&[&xor, &sha1cat(&[up.as_bytes()]), &rsalt, &abytes, &bbytes, &k]),
                sha1cat(&[&sha1cat(&[up.as_bytes()]), &salt, &abytes, &bbytes, &k]),
                sha1cat(&[&xor, up.as_bytes(), &salt, &abytes, &bbytes, &k]),
                sha1cat(&[&abytes, &m1, &k]),
            ];
            for t in cands {
                if t != m1 {
                    let (pc, pp) = clone_proof(&mut h, po, &proof);
                    h.into_server(pc, pp, apub, t);
                }
            }
        }
        // A bit flips as the server sees them
        for bit in (0..256).step_by(step) {
            let fa = arr32(&flip(&abytes, bit));
            if let Some(fapub) = h.pubkey(fa) {
                let (pc, pp) = clone_proof(&mut h, po, &proof);
                h.into_server(pc, pp, fapub, m1);
            }
        }
        // A + N (the same residue, a different 32-byte value: u = H(A | B) changes, so M1 no longer matches)
        {
            let mut an = [0u8; 32];
            let mut carry = 0u16;
            for i in 0..32 {
                let t = abytes[i] as u16 + N_LE[i] as u16 + carry;
                an[i] = t as u8;
                carry = t >> 8;
            }
            if carry == 0 {
                if let Some(anpub) = h.pubkey(an) {
                    let (pc, pp) = clone_proof(&mut h, po, &proof);
                    h.into_server(pc, pp, anpub, m1);
                }
            }
        }
        // keys ABOVE the prime (valid: not a multiple of N), each with exactly the proof the server determines for it
        // - learnt from the refusal of a first attempt on a clone - must be accepted: the decision depends on the proof alone
        {
            let mut above: Vec<[u8; 32]> = vec![[0xFFu8; 32]];
            let mut t = N_LE; t[0] = t[0].wrapping_add(2); above.push(t);
            let mut t = N_LE; t[31] = 0xFF; above.push(t);
            let (an, ov) = crate::util::le_add(&abytes, &N_LE);
            if !ov { above.push(an); }
            // ... and the server's own B reflected as A, B with one bit flipped, B + 1
            above.push(bbytes);
            above.push(arr32(&flip(&bbytes, 9)));
            above.push(crate::util::le_add_mod(&bbytes, &{ let mut x = [0u8; 32]; x[0] = 1; x }, &[0xFFu8; 32]));
            for ka in above {
                let Some(kpub) = h.pubkey(ka) else { continue };
                let (pc, pp) = clone_proof(&mut h, po, &proof);
                h.last_expected = None;
                h.into_server(pc, pp, kpub, [0x5Au8; 20]);
                if let Some(exp) = h.last_expected.take() {
                    let (pc, pp) = clone_proof(&mut h, po, &proof);
                    h.into_server(pc, pp, kpub, exp);
                }
            }
        }
        // B and salt bit flips as the client sees them; its proof then goes to the server
        for bit in (0..256).step_by(step) {
            let fb = arr32(&flip(&bbytes, bit));
            if let Some(fbpub) = h.pubkey(fb) {
                if let Some((_c2o, c2)) = h.client_new(&u, &p, 7, N_LE, fbpub, salt, Some(&a)) {
                    if let Some(a2) = h.pubkey(*c2.client_public_key()) {
                        let (pc, pp) = clone_proof(&mut h, po, &proof);
                        h.into_server(pc, pp, a2, *c2.client_proof());
                    }
                }
            }
            let fs = arr32(&flip(&salt, bit));
            if let Some((_c2o, c2)) = h.client_new(&u, &p, 7, N_LE, bpub, fs, Some(&a)) {
                if let Some(a2) = h.pubkey(*c2.client_public_key()) {
                    let (pc, pp) = clone_proof(&mut h, po, &proof);
                    h.into_server(pc, pp, a2, *c2.client_proof());
                }
            }
        }
        // other passwords / usernames (must be refused) and case-only variants (must be accepted)
        let mut others: Vec<(String, String)> = vec![];
        for _ in 0..(if thorough { 200 } else { 40 }) {
            others.push((u.clone(), rand_cred(&mut rng)));
            others.push((rand_cred(&mut rng), p.clone()));
        }
        let mut near = p.clone().into_bytes();
        let last = near.len() - 1;
        near[last] = if near[last] == b'0' { b'1' } else { b'0' };
        others.push((u.clone(), String::from_utf8(near).unwrap()));
        if p.len() < 16 {
            others.push((u.clone(), format!("{}x", p)));
        }
        if p.len() > 1 {
            others.push((u.clone(), p[..p.len() - 1].to_string()));
        }
        others.push((p.clone(), u.clone()));
        for k in 0..4 {
            others.push((case_variant(&u, k), case_variant(&p, k + 2)));
        }
        for (ou, op) in &others {
            if let Some((c2o, c2)) = h.client_new(ou, op, 7, N_LE, bpub, salt, None) {
                if let Some(a2) = h.pubkey(*c2.client_public_key()) {
                    let (pc, pp) = clone_proof(&mut h, po, &proof);
                    if let Some((_s, _srv, m2b)) = h.into_server(pc, pp, a2, *c2.client_proof()) {
                        h.verify_server_proof(c2o, c2, m2b);
                    }
                }
            }
        }
        // proof / key of a different session presented to this one
        if let Some((vo2, v2)) = h.register(&u, &p, None) {
            if let Some((po2, proof2)) = h.into_proof(vo2, v2, None) {
                let (pc, pp) = clone_proof(&mut h, po2, &proof2);
                h.into_server(pc, pp, apub, m1);
                // and the server proof of session 1 shown to a client of session 2
                if let Some(b2) = h.pubkey(*proof2.server_public_key()) {
                    if let Some((c3o, c3)) = h.client_new(&u, &p, 7, N_LE, b2, *proof2.salt(), None) {
                        h.verify_server_proof(c3o, c3, m2);
                    }
                }
            }
        }
    }
    // ROLES CROSSING ON ONE THREAD: on a fresh thread the very first thing is a CLIENT talking to a realm that announces
    // another group (N = 23, 257, a 256-bit number of another shape); then, on the same thread, an ordinary account is
    // registered and a client with the WRONG password, a right proof with one bit changed, and the right proof are
    // presented - whatever an earlier exchange announced, the server computes in ITS group
    for (gi, (g, nsmall)) in [(5u8, 23u64), (3, 257), (7, 0)].into_iter().enumerate() {
        h.reset("tamper-foreign-group-first");
        let mut n = [0u8; 32];
        if nsmall == 0 { n = N_LE; n[0] = n[0].wrapping_add(30); n[31] = 0x7F; } else { n[..8].copy_from_slice(&nsmall.to_le_bytes()); }
        let a = rnd32(&mut rng);
        let a2 = rnd32(&mut rng);
        let hr = &mut h;
        std::thread::scope(|sc| {
            sc.spawn(move || {
                let h = hr;
                let mut bb = [0u8; 32];
                bb[0] = 2 + gi as u8;
                if let Some(bpub) = h.pubkey(bb) {
                    h.client_new("BOB", "HUNTER2", g, n, bpub, [7u8; 32], Some(&a));
                }
                let Some((vo, v)) = h.register("ALICE", "PASSWORD123", None) else { return };
                let Some((po, proof)) = h.into_proof(vo, v, None) else { return };
                let Some(bpub) = h.pubkey(*proof.server_public_key()) else { return };
                let salt = *proof.salt();
                // wrong password
                if let Some((_co, intruder)) = h.client_new("ALICE", "NOT-THE-PASSWORD", 7, N_LE, bpub, salt, Some(&a2)) {
                    if let Some(apub) = h.pubkey(*intruder.client_public_key()) {
                        let (pc, pp) = clone_proof(h, po, &proof);
                        h.into_server(pc, pp, apub, *intruder.client_proof());
                    }
                }
                // right password: one bit of the proof changed, then the proof itself
                if let Some((co, honest)) = h.client_new("ALICE", "PASSWORD123", 7, N_LE, bpub, salt, Some(&a2)) {
                    if let Some(apub) = h.pubkey(*honest.client_public_key()) {
                        let (pc, pp) = clone_proof(h, po, &proof);
                        h.into_server(pc, pp, apub, a20(&flip(honest.client_proof(), 77 + gi)));
                        if let Some((_so, _srv, m2)) = h.into_server(po, proof, apub, *honest.client_proof()) {
                            h.verify_server_proof(co, honest, m2);
                        }
                    }
                }
            });
        });
    }
    h.tr.finish()
}

fn sha1cat(parts: &[&[u8]]) -> [u8; 20] {
    let mut s = Sha1::new();
    for p in parts {
        s.update(p);
    }
    s.finalize().into()
}

/// C05: replay TLC-generated reconnect histories on a real server / client pair.
/// A history is a sequence of attempt kinds; see spec/mc/MCReconnect.tla.
pub fn run_reconnect(args: &Args) -> (u64, u64) {
    let mut h = H::new(Tr::create(&args.out)).with_det(args);
    let mut rng = StdRng::seed_from_u64(args.seed);
    let scen = read_ndjson(args.scen.as_ref().expect("--scen histories"));
    let mut bitctr = 0usize;
    let mut base: Option<(Session, Option<Session>, &str)> = None;
    for (hi, hist) in scen.iter().enumerate() {
        if hi % 150 == 0 || base.is_none() {
            // a fresh login every 150 histories; each history then runs on a clone of its server
            h.reset("reconnect-history");
            let (u, p) = CREDS[(hi / 150) % CREDS.len()];
            let prm = Params { user: u, pass: p, typed_user: u, typed_pass: p, salt: None, b: None, a: None, storage: false };
            let Some(s) = honest_login(&mut h, &prm) else { continue };
            // a second, unrelated session: its client knows a different session key
            let other = honest_login(&mut h, &prm);
            base = Some((s, other, u));
        }
        let (bs, other, u) = base.as_ref().unwrap();
        let mut s = Session { so: h.clone_event(bs.so), server: bs.server.clone(), co: bs.co, client: bs.client.clone() };
        let uname = u.to_ascii_uppercase();
        let key = *s.server.session_key();
        let mut accepted: Vec<([u8; 16], [u8; 20])> = vec![];
        let mut rejected: Vec<([u8; 16], [u8; 20])> = vec![];
        let mut prev_chal: Option<[u8; 16]> = None;
        let kinds: Vec<String> = hist["h"].as_array().unwrap().iter().map(|x| x.as_str().unwrap().to_string()).collect();
        for kind in kinds {
            let chal = *s.server.reconnect_challenge_data();
            let attempt: Option<([u8; 16], [u8; 20])> = match kind.as_str() {
                "good" => h.reconnect_values(s.co, &s.client, chal, None).map(|r| (r.challenge_data, r.proof)),
                "replayAcc" => accepted.last().cloned(),
                "replayRej" => rejected.last().cloned(),
                "replayAccFirst" => if accepted.len() >= 2 { accepted.first().cloned() } else { None },
                "replayRejFirst" => if rejected.len() >= 2 { rejected.first().cloned() } else { None },
                "stale" => prev_chal.and_then(|pc| h.reconnect_values(s.co, &s.client, pc, None).map(|r| (r.challenge_data, r.proof))),
                "wrongK" => other.as_ref().and_then(|o| h.reconnect_values(o.co, &o.client, chal, None).map(|r| (r.challenge_data, r.proof))),
                "wrongU" => {
                    let mut cd = [0u8; 16];
                    rng.fill_bytes(&mut cd);
                    let mut un = uname.clone().into_bytes();
                    un[0] = if un[0] == b'Q' { b'R' } else { b'Q' };
                    Some((cd, sha1cat(&[&un, &cd, &chal, &key])))
                }
                "flipProof" => h.reconnect_values(s.co, &s.client, chal, None).map(|r| {
                    bitctr += 1;
                    (r.challenge_data, a20(&flip(&r.proof, (bitctr * 37) % 160)))
                }),
                "flipData" => h.reconnect_values(s.co, &s.client, chal, None).map(|r| {
                    bitctr += 1;
                    (a16(&flip(&r.challenge_data, (bitctr * 29) % 128)), r.proof)
                }),
                "truncProof" => h.reconnect_values(s.co, &s.client, chal, None).and_then(|r| {
                    // the first k bytes of the good proof, the rest zero (k = 0 is the all-zero proof)
                    bitctr += 1;
                    let k = (bitctr * 7) % 20;
                    let mut t = r.proof;
                    for x in t.iter_mut().skip(k) {
                        *x = 0;
                    }
                    if t == r.proof { None } else { Some((r.challenge_data, t)) }
                }),
                "regroupProof" => h.reconnect_values(s.co, &s.client, chal, None).and_then(|r| {
                    // the right proof with the hex digits of two neighbouring bytes or words regrouped
                    bitctr += 1;
                    let rv = crate::util::regroup_variants(&r.proof);
                    if rv.is_empty() { None } else { Some((r.challenge_data, a20(&rv[(bitctr * 5) % rv.len()]))) }
                }),
                "reflect" => {
                    // the client happens to (or chooses to) send the server's own challenge as its data: a correct proof
                    // over it is a correct proof
                    Some((chal, sha1cat(&[uname.as_bytes(), &chal, &chal, &key])))
                }
                "garbage" => {
                    let mut cd = [0u8; 16];
                    let mut pr = [0u8; 20];
                    rng.fill_bytes(&mut cd);
                    rng.fill_bytes(&mut pr);
                    Some((cd, pr))
                }
                other => {
                    eprintln!("harness: unknown reconnect attempt kind {}", other);
                    std::process::exit(2)
                }
            };
            let Some((cd, pr)) = attempt else { continue };
            prev_chal = Some(chal);
            match h.verify_reconnect(s.so, &mut s.server, cd, pr, &kind) {
                Some(true) => accepted.push((cd, pr)),
                Some(false) => rejected.push((cd, pr)),
                None => break,
            }
        }
        h.drop_event(s.so);
    }
    // account names with a punctuation character at EVERY position of a 16-character name (and short names of punctuation
    // only): the name enters the reconnect proof exactly as it was normalised at login
    {
        h.reset("reconnect-name-positions");
        let specials = ['{', '|', '}', '~', '`', '@', '[', '\\', ']', '^', '_', '!', '/', ':', ';', '?'];
        let base: Vec<char> = "ABCDEFGHIJKLMNOP".chars().collect();
        let mut names: Vec<String> = vec![];
        for pos in 0..16usize {
            let mut t = base.clone();
            t[pos] = specials[(pos * 5 + 13) % specials.len()];
            names.push(t.iter().collect());
            // { | } ~ (the characters just above 'z') at every position
            for sp in [0usize, 1, 2, 3] { let mut t = base.clone(); t[pos] = specials[sp]; names.push(t.iter().collect()); }
        }
        names.push("{|}~".to_string());
        names.push("z{z|z}z~z".to_string());
        for (k, name) in names.iter().enumerate() {
            let typed = case_variant(name, k);
            let prm = Params { user: name, pass: "PW", typed_user: &typed, typed_pass: "pw", salt: None, b: None, a: None, storage: k % 2 == 0 };
            if let Some(mut sess) = honest_login(&mut h, &prm) {
                good_reconnect(&mut h, &mut sess);
            }
        }
    }
    // proofs over TRANSFORMED inputs: the attacker presents data X with a proof computed over t1(X) and t2(challenge) for
    // byte-order reversal, complement, rotation by one byte, swapped halves and 32-bit word swaps (every pair but the
    // identity pair): the proof covers the bytes as presented and as offered, in that order and no other; a legitimate
    // reconnect follows each refusal
    {
        h.reset("reconnect-transformed-inputs");
        let prm = Params { user: "TRANSFORM", pass: "INPUTS", typed_user: "transform", typed_pass: "inputs", salt: None, b: None, a: None, storage: false };
        if let Some(mut s) = honest_login(&mut h, &prm) {
            let key = *s.server.session_key();
            let tf = |k: usize, x: &[u8; 16]| -> [u8; 16] {
                let mut y = *x;
                match k {
                    0 => {}
                    1 => y.reverse(),
                    2 => for b in y.iter_mut() { *b = !*b; },
                    3 => y.rotate_left(1),
                    4 => y.rotate_left(8),
                    _ => for w in y.chunks_mut(4) { w.reverse(); },
                }
                y
            };
            'outer: for t1 in 0..6usize {
                for t2 in 0..6usize {
                    if t1 == 0 && t2 == 0 { continue; }
                    let chal = *s.server.reconnect_challenge_data();
                    let mut x = [0u8; 16];
                    rng.fill_bytes(&mut x);
                    let pr = sha1cat(&[b"TRANSFORM", &tf(t1, &x), &tf(t2, &chal), &key]);
                    if h.verify_reconnect(s.so, &mut s.server, x, pr, "transformed").is_none() { break 'outer; }
                    if (t1 + t2) % 3 == 0 && good_reconnect(&mut h, &mut s).is_none() { break 'outer; }
                }
            }
        }
    }
    // two live sessions of ONE account whose session keys share their first two bytes (found by logging the account in
    // natively up to 900 times with injected server keys; input selection only), then reconnects on the older and the
    // newer one in turn, and each client's proof presented to the other server
    if h.det.is_none() {
        h.reset("reconnect-twin-sessions");
        let salt = rnd32(&mut rng);
        clear_hooks();
        inject("Salt", &salt);
        let v0 = wow_srp::server::SrpVerifier::from_username_and_password(ns("TWIN"), ns("SESSIONS"));
        clear_hooks();
        let a = rnd32(&mut rng);
        let mut seen: std::collections::HashMap<[u8; 2], [u8; 32]> = std::collections::HashMap::new();
        let mut pairb: Option<([u8; 32], [u8; 32])> = None;
        for _ in 0..900 {
            let bk = rnd32(&mut rng);
            clear_hooks();
            inject("PrivateKey", &bk);
            let r = guard(|| {
                let p = v0.clone().into_proof();
                let bpub = wow_srp::PublicKey::from_le_bytes(*p.server_public_key()).ok()?;
                inject("PrivateKey", &a);
                let c = wow_srp::client::SrpClientChallenge::new(ns("TWIN"), ns("SESSIONS"), 7, N_LE, bpub, *p.salt());
                let apub = wow_srp::PublicKey::from_le_bytes(*c.client_public_key()).ok()?;
                let (srv, _) = p.into_server(apub, *c.client_proof()).ok()?;
                Some([srv.session_key()[0], srv.session_key()[1]])
            });
            clear_hooks();
            if let Ok(Some(k2)) = r {
                if let Some(prev) = seen.insert(k2, bk) {
                    if prev != bk { pairb = Some((prev, bk)); break; }
                }
            }
        }
        if let Some((b1, b2)) = pairb {
            let mk = |h: &mut H, bk: [u8; 32]| {
                let prm = Params { user: "TWIN", pass: "SESSIONS", typed_user: "twin", typed_pass: "sessions", salt: Some(salt), b: Some(bk), a: Some(a), storage: false };
                honest_login(h, &prm)
            };
            if let (Some(mut s1), Some(mut s2)) = (mk(&mut h, b1), mk(&mut h, b2)) {
                for round in 0..3 {
                    good_reconnect(&mut h, &mut s1);
                    good_reconnect(&mut h, &mut s2);
                    // each client's proof for the OTHER server's challenge: the keys differ, so both are refused
                    let ch2 = *s2.server.reconnect_challenge_data();
                    if let Some(r) = h.reconnect_values(s1.co, &s1.client, ch2, None) {
                        h.verify_reconnect(s2.so, &mut s2.server, r.challenge_data, r.proof, "wrongK");
                    }
                    good_reconnect(&mut h, &mut s2);
                    let ch1 = *s1.server.reconnect_challenge_data();
                    if let Some(r) = h.reconnect_values(s2.co, &s2.client, ch1, None) {
                        h.verify_reconnect(s1.so, &mut s1.server, r.challenge_data, r.proof, "wrongK");
                    }
                    if round == 1 { good_reconnect(&mut h, &mut s1); }
                }
            }
        }
    }
    // long legitimate run
    let long = if args.tier == "thorough" { 1000 } else { 100 };
    h.reset("reconnect-long");
    let prm = Params { user: "LONG", pass: "RUN", typed_user: "long", typed_pass: "run", salt: None, b: None, a: None, storage: false };
    if let Some(mut s) = honest_login(&mut h, &prm) {
        for _ in 0..long {
            good_reconnect(&mut h, &mut s);
        }
        // runs of rejected attempts of growing length (1, 2, 4, ... 64; thorough up to 1024), each followed by the
        // legitimate client: however many refusals went before, the right proof for the current challenge gets in
        let mut run = 1usize;
        while run <= (if args.tier == "thorough" { 1024 } else { 64 }) {
            for j in 0..run {
                let mut cd = [0u8; 16];
                let mut pr = [0u8; 20];
                rng.fill_bytes(&mut cd);
                rng.fill_bytes(&mut pr);
                if j % 3 == 1 { pr = [0u8; 20]; }
                h.verify_reconnect(s.so, &mut s.server, cd, pr, "garbage");
            }
            good_reconnect(&mut h, &mut s);
            good_reconnect(&mut h, &mut s);
            run *= 2;
        }
        // the session left alone for 11 seconds, then the legitimate client (time is not an input)
        std::thread::sleep(std::time::Duration::from_secs(11));
        good_reconnect(&mut h, &mut s);
        // 70 000 refusals in a row (more than any 16-bit counter holds), then the legitimate client again
        if h.bulk_reject(s.so, &mut s.server, 70_000) {
            good_reconnect(&mut h, &mut s);
            good_reconnect(&mut h, &mut s);
        }
    }
    h.tr.finish()
}

/// C03 / C14: the interleave function on every leading-zero count (through hook H2).
pub fn run_interleave(args: &Args) -> (u64, u64) {
    let mut h = H::new(Tr::create(&args.out)).with_det(args);
    let mut rng = StdRng::seed_from_u64(args.seed);
    let reps = if args.tier == "thorough" { 40 } else { 4 };
    h.reset("interleave");
    for z in 0..=32usize {
        for rep in 0..reps {
            let mut s = rnd32(&mut rng);
            for x in s.iter_mut().take(z) {
                *x = 0;
            }
            if z < 32 {
                if s[z] == 0 {
                    s[z] = 1 + (rep as u8);
                }
                // zero / non-zero tails and interior zeros
                match rep % 4 {
                    1 => s[31] = 0,
                    2 => {
                        for x in s.iter_mut().skip(z + 1) {
                            *x = 0;
                        }
                    }
                    3 => {
                        if z + 2 < 32 {
                            s[z + 1] = 0;
                            s[z + 2] = 0;
                        }
                    }
                    _ => {}
                }
            }
            h.interleave(s);
        }
    }
    h.tr.finish()
}

/// C04: the public-key constructor on directed and random arrays.
pub fn run_pubkey(args: &Args) -> (u64, u64) {
    let mut h = H::new(Tr::create(&args.out)).with_det(args);
    let mut rng = StdRng::seed_from_u64(args.seed);
    let thorough = args.tier == "thorough";
    h.reset("pubkey");
    let zero = [0u8; 32];
    let n = N_LE;
    h.pubkey(zero);
    h.pubkey(n);
    // keys RELATED to N (and to 0): complement, byte order reversed, bits reversed, rotated by bytes, halves swapped, shifted,
    // XOR with constant masks - all valid keys (none is 0 or N)
    {
        let mut rel: Vec<[u8; 32]> = vec![];
        let mut t = n; for x in t.iter_mut() { *x = !*x; } rel.push(t);
        let mut t = n; t.reverse(); rel.push(t);
        let mut t = n; for x in t.iter_mut() { *x = x.reverse_bits(); } rel.push(t);
        let mut t = n; t.reverse(); for x in t.iter_mut() { *x = x.reverse_bits(); } rel.push(t);
        for k in [1usize, 4, 8, 16, 31] { let mut t = n; t.rotate_left(k); rel.push(t); }
        for m in [0x55u8, 0xAA, 0x0F, 0xF0, 0x80, 0x01, 0xFF] { let mut t = n; for x in t.iter_mut() { *x ^= m; } rel.push(t); }
        let mut t = [0u8; 32]; let mut c = 0u8; for i in (0..32).rev() { let v = n[i]; t[i] = (v >> 1) | (c << 7); c = v & 1; } rel.push(t);   // N >> 1
        let mut t = [0u8; 32]; let mut c = 0u8; for i in 0..32 { let v = n[i]; t[i] = (v << 1) | c; c = v >> 7; } rel.push(t);               // 2N mod 2^256
        for k in rel {
            h.pubkey(k);
            h.pubkey(n);
        }
    }
    // keys that READ like N when each byte (or 32-bit word) is printed without zero padding and the pieces are joined
    for k in crate::util::regroup_variants(&n) {
        h.pubkey(arr32(&k));
    }
    // ORDER of calls: a valid key that collides with N (or 0) under a positional polynomial fingerprint of base 31, 33, 37,
    // 131 or 257 - one byte one lower, its neighbour `base` higher, in either direction - directly followed by N (or 0)
    for base in [31u16, 33, 37, 131, 257] {
        for i in 0..31usize {
            for (lo, hi) in [(i, i + 1), (i + 1, i)] {
                for target in [n, zero] {
                    let mut k = target;
                    let up = k[hi] as u16 + (base % 256);
                    if k[lo] == 0 || up > 255 || (base > 255 && hi + 1 > 31) {
                        continue;
                    }
                    k[lo] -= 1;
                    k[hi] = up as u8;
                    if base > 255 {
                        if k[hi + 1] == 255 { continue; }
                        k[hi + 1] += 1;
                    }
                    h.pubkey(k);
                    h.pubkey(target);
                }
            }
        }
    }
    // neighbours: 0 + d*256^i, N +- d*256^i (byte-wise wrapping, each still a 32-byte array)
    for i in 0..32 {
        for d in 1..=3u8 {
            let mut k = zero;
            k[i] = d;
            h.pubkey(k);
            let mut k = n;
            k[i] = k[i].wrapping_add(d);
            h.pubkey(k);
            let mut k = n;
            k[i] = k[i].wrapping_sub(d);
            h.pubkey(k);
        }
    }
    // every single-byte substitution of 0 and of N
    let stride = if thorough { 1 } else { 5 };
    for i in 0..32 {
        for v in (0..=255u8).step_by(stride) {
            let mut k = zero;
            k[i] = v;
            h.pubkey(k);
            let mut k = n;
            k[i] = v;
            h.pubkey(k);
        }
    }
    // sub-masks of N: each byte either 0 or N's byte; few taken / few dropped / random masks
    let mask_key = |m: u32| {
        let mut k = [0u8; 32];
        for i in 0..32 {
            if m >> i & 1 == 1 {
                k[i] = n[i];
            }
        }
        k
    };
    for i in 0..32 {
        h.pubkey(mask_key(1 << i));
        h.pubkey(mask_key(!(1u32 << i)));
        for j in (i + 1)..32 {
            if thorough || (i + j) % 4 == 0 {
                h.pubkey(mask_key((1 << i) | (1 << j)));
                h.pubkey(mask_key(!((1u32 << i) | (1 << j))));
            }
        }
    }
    // prefixes and suffixes of N (N mod 256^j, N with its low j bytes cleared) and their complements
    for j in 1..32u32 {
        let low = (1u32 << j) - 1;
        h.pubkey(mask_key(low));
        h.pubkey(mask_key(!low));
    }
    let nmask = if thorough { 20000 } else { 2000 };
    for _ in 0..nmask {
        h.pubkey(mask_key(rng.gen()));
    }
    // 2N mod 2^256, N+1 .. , all-0xFF, random keys
    let mut two_n = [0u8; 32];
    let mut carry = 0u16;
    for i in 0..32 {
        let v = (n[i] as u16) * 2 + carry;
        two_n[i] = v as u8;
        carry = v >> 8;
    }
    h.pubkey(two_n);
    h.pubkey([0xff; 32]);
    for _ in 0..(if thorough { 5000 } else { 500 }) {
        h.pubkey(rnd32(&mut rng));
    }
    h.tr.finish()
}

/// C03: TLC-generated client cases for announced groups.
/// Each scenario line: {g, N, a, B, salt, user, pass}.
pub fn run_clientgroups(args: &Args) -> (u64, u64) {
    let mut h = H::new(Tr::create(&args.out)).with_det(args);
    let scen = read_ndjson(args.scen.as_ref().expect("--scen cases"));
    let mut cnt = 0u64;
    for c in scen.iter() {
        if cnt % 100 == 0 {
            h.reset("clientgroups");
        }
        cnt += 1;
        let g = c["g"].as_u64().unwrap() as u8;
        let n = arr32(&jbytes(&c["N"]));
        let a = arr32(&jbytes(&c["a"]));
        let bb = arr32(&jbytes(&c["B"]));
        let salt = arr32(&jbytes(&c["salt"]));
        let user = jstr_from_cps(&c["user"]);
        let pass = jstr_from_cps(&c["pass"]);
        let Some(bpub) = h.pubkey(bb) else { continue };
        if let Some((co, chal)) = h.client_new(&user, &pass, g, n, bpub, salt, Some(&a)) {
            // the server proof the specification expects is in the scenario; the real client must accept it
            if let Some(m2) = c.get("M2") {
                h.verify_server_proof(co, chal, a20(&jbytes(m2)));
            }
        }
    }
    // the client REFUSES its own key (announced g = N, N = 1: documented panic, caught here), and the same thread then serves
    // a complete login with the built-in group: nothing of the refused group may linger
    {
        h.reset("clientgroups-after-own-key-panic");
        let one = { let mut x = [0u8; 32]; x[0] = 1; x };
        if let Some(bpub) = h.pubkey({ let mut x = [0u8; 32]; x[0] = 9; x }) {
            for (g, nn) in [(7u8, 7u8), (2, 2), (5, 1), (6, 3)] {
                let mut n32 = [0u8; 32];
                n32[0] = nn;
                h.client_new("PANIC", "KEY", g, n32, bpub, [3u8; 32], Some(&one));
                let prm = Params { user: "AFTER", pass: "PANIC", typed_user: "after", typed_pass: "panic", salt: None, b: None, a: None, storage: false };
                if let Some(mut sess) = honest_login(&mut h, &prm) {
                    good_reconnect(&mut h, &mut sess);
                }
            }
        }
    }
    // group hopping: ONE set of credentials and one salt, consecutive logins (same thread) that differ only in the
    // announced modulus, then only in the generator - nothing computed for one group may be reused for another
    {
        let mut groups: Vec<([u8; 32], [u8; 32], [u8; 32])> = vec![];   // (N, B valid for N, a)
        let mut gens: Vec<u8> = vec![];
        for c in scen.iter() {
            let n = arr32(&jbytes(&c["N"]));
            if !groups.iter().any(|g| g.0 == n) {
                groups.push((n, arr32(&jbytes(&c["B"])), arr32(&jbytes(&c["a"]))));
            }
            let g = c["g"].as_u64().unwrap() as u8;
            if !gens.contains(&g) {
                gens.push(g);
            }
        }
        gens.truncate(4);
        if args.tier != "thorough" {
            // a spread of small and large groups
            let keep: Vec<usize> = (0..groups.len()).filter(|i| i % 3 == 0 || *i + 2 >= groups.len()).collect();
            groups = keep.iter().map(|i| groups[*i]).collect();
        }
        if let Some(first) = scen.first() {
            let salt = arr32(&jbytes(&first["salt"]));
            let user = jstr_from_cps(&first["user"]);
            let pass = jstr_from_cps(&first["pass"]);
            h.reset("clientgroups-hopping");
            for g in &gens {
                for (n, bb, a) in &groups {
                    let Some(bpub) = h.pubkey(*bb) else { continue };
                    h.client_new(&user, &pass, *g, *n, bpub, salt, Some(a));
                }
            }
            h.reset("clientgroups-hopping");
            for (n, bb, a) in groups.iter().rev() {
                for g in &gens {
                    let Some(bpub) = h.pubkey(*bb) else { continue };
                    h.client_new(&user, &pass, *g, *n, bpub, salt, Some(a));
                }
            }
        }
    }
    h.tr.finish()
}

/// C14: hostile peers. Server side: arbitrary A / M1 / reconnect data against accounts with
/// ordinary and unusual verifiers; client side: arbitrary B / salt / M2 with the built-in group.
pub fn run_adversary(args: &Args) -> (u64, u64) {
    let mut h = H::new(Tr::create(&args.out)).with_det(args);
    let mut rng = StdRng::seed_from_u64(args.seed);
    let thorough = args.tier == "thorough";
    let rounds = args.n.unwrap_or(if thorough { 60 } else { 4 });
    let scen: Vec<Value> = args.scen.as_ref().map(|p| read_ndjson(p)).unwrap_or_default();
    let one = {
        let mut k = [0u8; 32];
        k[0] = 1;
        k
    };
    let mut n_minus_1 = N_LE;
    n_minus_1[0] -= 1;
    let mut n_plus_1 = N_LE;
    n_plus_1[0] += 1;
    let mut sparse = [0u8; 32];
    sparse[31] = 1;
    let mut sparse2 = [0u8; 32];
    sparse2[16] = 0x80;
    // TIME is not an input of any function here: a session left alone for 11 seconds (thorough: and 31 more) answers a
    // wrong and a right reconnect attempt exactly as a fresh one does
    if h.det.is_none() {
        h.reset("adversary-time");
        let prm = Params { user: "SLOW", pass: "PEER", typed_user: "SLOW", typed_pass: "PEER", salt: None, b: None, a: None, storage: false };
        if let Some(mut s) = honest_login(&mut h, &prm) {
            for pause in if thorough { vec![11u64, 31] } else { vec![11] } {
                std::thread::sleep(std::time::Duration::from_secs(pause));
                h.verify_reconnect(s.so, &mut s.server, [7u8; 16], [8u8; 20], "garbage");
                std::thread::sleep(std::time::Duration::from_millis(1100));
                good_reconnect(&mut h, &mut s);
            }
        }
    }
    // a peer that keeps presenting wrong reconnect proofs: 300 and then 70 000 in a row never disturb the server
    {
        h.reset("adversary-bulk");
        let prm = Params { user: "BULK", pass: "REJECT", typed_user: "BULK", typed_pass: "REJECT", salt: None, b: None, a: None, storage: false };
        if let Some(mut s) = honest_login(&mut h, &prm) {
            if h.bulk_reject(s.so, &mut s.server, 300) && h.bulk_reject(s.so, &mut s.server, 70_000) {
                good_reconnect(&mut h, &mut s);
            }
        }
    }
    for round in 0..rounds {
        h.reset("adversary");
        let (u, p) = CREDS[(round as usize) % CREDS.len()];
        // verifiers: proper, 1, N-1, >= N but not a multiple (all-0xFF), sparse
        let proper = h.register(u, p, None);
        let mut verifiers: Vec<(u64, wow_srp::server::SrpVerifier)> = vec![];
        if let Some(x) = proper {
            verifiers.push(x);
        }
        for v in [one, n_minus_1, [0xff; 32], sparse] {
            verifiers.push(h.import(u, v, rnd32(&mut rng)));
        }
        for (vo, v) in verifiers {
            let bk = if round % 2 == 0 { None } else { Some(one) };
            let Some((po, proof)) = h.into_proof(vo, v, bk.as_ref().map(|x| &x[..])) else { continue };
            let mut a_values: Vec<[u8; 32]> = vec![one, n_minus_1, n_plus_1, [0xff; 32], sparse, sparse2, rnd32(&mut rng)];
            for c in scen.iter().filter(|c| c["side"] == "server") {
                a_values.push(arr32(&jbytes(&c["A"])));
            }
            for av in a_values {
                let Some(apub) = h.pubkey(av) else { continue };
                for m1 in [[0u8; 20], [0xff; 20], {
                    let mut m = [0u8; 20];
                    rng.fill_bytes(&mut m);
                    m
                }] {
                    let (pc, pp) = clone_proof(&mut h, po, &proof);
                    h.into_server(pc, pp, apub, m1);
                }
            }
        }
        // client side: hostile server values; a pinned so that TLC-chosen B values hit their target
        let salt_choices = [[0u8; 32], [0xff; 32], rnd32(&mut rng)];
        let mut b_values: Vec<([u8; 32], Option<[u8; 32]>, [u8; 32])> = vec![];
        for s in salt_choices {
            for bv in [one, n_minus_1, n_plus_1, [0xff; 32], sparse, sparse2, rnd32(&mut rng)] {
                b_values.push((bv, None, s));
            }
        }
        // TLC-computed hostile server keys (S = 0, base = 1, N-1, g, 2^128) for their own credentials
        if round == 0 {
            for c in scen.iter().filter(|c| c["side"] == "client") {
                let (cu, cp) = (jstr_from_cps(&c["user"]), jstr_from_cps(&c["pass"]));
                let Some(bpub) = h.pubkey(arr32(&jbytes(&c["B"]))) else { continue };
                let a = arr32(&jbytes(&c["a"]));
                if let Some((co, chal)) = h.client_new(&cu, &cp, 7, N_LE, bpub, arr32(&jbytes(&c["salt"])), Some(&a)) {
                    h.verify_server_proof(co, chal, [0x5a; 20]);
                }
            }
        }
        for (bv, a, salt) in b_values {
            let Some(bpub) = h.pubkey(bv) else { continue };
            if let Some((co, chal)) = h.client_new(u, p, 7, N_LE, bpub, salt, a.as_ref().map(|x| &x[..])) {
                let mut m2 = [0u8; 20];
                rng.fill_bytes(&mut m2);
                let cc = h.clone_event(co);
                h.verify_server_proof(cc, chal.clone(), m2);
                h.verify_server_proof(co, chal, [0u8; 20]);
            }
        }
        // reconnect: arbitrary data and proofs against a live session
        let prm = Params { user: u, pass: p, typed_user: u, typed_pass: p, salt: None, b: None, a: None, storage: false };
        if let Some(mut s) = honest_login(&mut h, &prm) {
            for k in 0..6 {
                let mut cd = [0u8; 16];
                let mut pr = [0u8; 20];
                if k % 3 == 1 {
                    rng.fill_bytes(&mut cd);
                    rng.fill_bytes(&mut pr);
                } else if k % 3 == 2 {
                    cd = [0xff; 16];
                    pr = [0xff; 20];
                }
                h.verify_reconnect(s.so, &mut s.server, cd, pr, "garbage");
                h.reconnect_values(s.co, &s.client, cd, None);
                // client data equal to the challenge currently on offer; proof equal to (a prefix of) the session key
                let cur = *s.server.reconnect_challenge_data();
                let mut pk = [0u8; 20];
                pk.copy_from_slice(&s.server.session_key()[..20]);
                h.verify_reconnect(s.so, &mut s.server, cur, pk, "garbage");
            }
        }
    }
    // the interleave on the all-zero secret
    h.interleave([0u8; 32]);
    h.tr.finish()
}

/// C19: degenerate draws and announced groups, where the two integer back ends are most likely to differ
pub fn run_degenerate(args: &Args) -> (u64, u64) {
    let mut h = H::new(Tr::create(&args.out)).with_det(args);
    h.reset("degenerate");
    let zero = [0u8; 32];
    let one = { let mut k = [0u8; 32]; k[0] = 1; k };
    // all-zero private keys on both sides
    if let Some((vo, v)) = h.register("ZERO", "KEY", None) {
        if let Some((po, proof)) = h.into_proof(vo, v, Some(&zero)) {
            if let Some(bpub) = h.pubkey(*proof.server_public_key()) {
                if let Some((co, chal)) = h.client_new("ZERO", "KEY", 7, N_LE, bpub, *proof.salt(), Some(&zero)) {
                    if let Some(apub) = h.pubkey(*chal.client_public_key()) {
                        let m1 = *chal.client_proof();
                        if let Some((_so, _s, m2)) = h.into_server(po, proof, apub, m1) {
                            h.verify_server_proof(co, chal, m2);
                        }
                    }
                }
            }
        }
    }
    // private key one, N - 1, all 0xFF
    for k in [one, { let mut x = N_LE; x[0] -= 1; x }, [0xff; 32]] {
        let prm = Params { user: "EDGE", pass: "KEYS", typed_user: "edge", typed_pass: "keys", salt: None, b: Some(k), a: Some(k), storage: false };
        honest_login(&mut h, &prm);
    }
    // announced groups: even moduli (2 is prime), modulus 1, tiny and huge generators
    let bpub = h.pubkey(one);
    if let Some(bpub) = bpub {
        for n in [2u8, 3, 4, 6, 255] {
            for g in [2u8, 3, 7, 255] {
                for a in [zero, one, [0xff; 32]] {
                    let mut nn = [0u8; 32];
                    nn[0] = n;
                    h.client_new("EDGE", "KEYS", g, nn, bpub, [0u8; 32], Some(&a));
                }
            }
        }
    }
    // small announced moduli with UNREDUCED server keys around 2^31, 2^32, 2^63, 2^64 (B is any 32-byte value; the client reduces)
    {
        let small: Vec<[u8; 32]> = [23u64, 65537, 1_000_003, 2_305_843_009_213_693_951, 4_294_967_291].iter().map(|v| { let mut x = [0u8; 32]; x[..8].copy_from_slice(&v.to_le_bytes()); x }).collect();
        let bs: Vec<[u8; 32]> = [1u128 << 31, (1 << 31) + 5, (1 << 32) - 1, 1 << 32, 1 << 62, 1 << 63, (1 << 63) + 1, (1u128 << 64) - 1, 1 << 64, (1 << 65) - 3, (1 << 127) + 9]
            .iter().map(|v| { let mut x = [0u8; 32]; x[..16].copy_from_slice(&v.to_le_bytes()); x }).collect();
        for nn in &small {
            for bb in &bs {
                let Some(bp) = h.pubkey(*bb) else { continue };
                for (g, a) in [(2u8, one), (7, { let mut x = [0u8; 32]; x[0] = 3; x })] {
                    h.client_new("EDGE", "KEYS", g, *nn, bp, [9u8; 32], Some(&a));
                }
            }
        }
    }
    // large NON-prime announced moduli: powers of two (2^64, 2^65, 2^128, 2^200, 2^255), 2^k - 1 and 2^k + 1 composites,
    // a multiple of 256 - with server keys on both sides of 3 * g^x (negative and positive base B - k*g^x), odd and even a
    {
        let pow2 = |k: usize| { let mut n = [0u8; 32]; n[k / 8] = 1 << (k % 8); n };
        let mut mods: Vec<[u8; 32]> = vec![pow2(64), pow2(65), pow2(128), pow2(200), pow2(255), pow2(63), pow2(16)];
        let mut m = pow2(128); m[0] = 1; mods.push(m);                       // 2^128 + 1
        let mut m = [0xFFu8; 32]; for x in m.iter_mut().skip(12) { *x = 0; } mods.push(m);   // 2^96 - 1
        let mut m = [0u8; 32]; m[1] = 0x01; m[20] = 0x35; mods.push(m);      // a multiple of 256
        for nn in mods {
            for g in [2u8, 7, 255] {
                for bb in [one, { let mut x = [0u8; 32]; x[0] = 2; x }, { let mut x = [0u8; 32]; x[0] = 0xF1; x[7] = 0x99; x }, [0x77u8; 32]] {
                    let Some(bp) = h.pubkey(bb) else { continue };
                    for a in [one, { let mut x = [0u8; 32]; x[0] = 2; x }, { let mut x = [0u8; 32]; x[0] = 0x3B; x[9] = 0x11; x }] {
                        h.client_new("EDGE", "KEYS", g, nn, bp, [7u8; 32], Some(&a));
                    }
                }
            }
        }
    }
    h.tr.finish()
}

/// C04: the server's own key on TLC-solved verifiers (B must be exactly the target; t = 0 / N: documented panic),
/// and the client's own key under announced moduli that divide the generator (documented panic).
pub fn run_ownkey(args: &Args) -> (u64, u64) {
    let mut h = H::new(Tr::create(&args.out)).with_det(args);
    h.reset("ownkey");
    let scen = read_ndjson(args.scen.as_ref().expect("--scen own-key cases"));
    for (k, c) in scen.iter().enumerate() {
        let v = arr32(&jbytes(&c["v"]));
        let bk = arr32(&jbytes(&c["b"]));
        let (vo, ver) = h.import("OWNKEY", v, [k as u8; 32]);
        if let Some((_po, proof)) = h.into_proof(vo, ver, Some(&bk)) {
            h.pubkey(*proof.server_public_key());
        }
    }
    let one = { let mut x = [0u8; 32]; x[0] = 1; x };
    if let Some(bpub) = h.pubkey(one) {
        for (g, n) in [(7u8, 7u8), (255, 5), (2, 2), (3, 3), (6, 3), (250, 5), (7, 11), (2, 5), (7, 3), (1, 11), (1, 183), (4, 3), (12, 11)] {
            let mut nn = [0u8; 32];
            nn[0] = n;
            for a in [[0u8; 32], one, [0xff; 32], [0x55; 32]] {
                h.client_new("OWNKEY", "X", g, nn, bpub, [1u8; 32], Some(&a));
                // whatever the client just did with an announced modulus (it may have refused its own key by
                // panicking), keys received afterwards on this thread are judged against the built-in prime
                h.pubkey(nn);
                h.pubkey(N_LE);
                h.pubkey([0u8; 32]);
                let mut g32 = [0u8; 32];
                g32[0] = g;
                h.pubkey(g32);
            }
        }
    }
    // announced moduli of two and more bytes whose LOW BYTES equal the client's own key: A = g^1 = N mod 256 (and the
    // key 1 with moduli ending in 01) - A is not 0 modulo N, the login must go through
    if let Some(bpub) = h.pubkey(one) {
        let mods: Vec<Vec<u8>> = vec![vec![1, 1], vec![7, 1], vec![1, 0, 1], vec![0xFB, 0xFF], vec![0x0D, 0x01, 0x01], vec![0x2F, 0, 0, 0, 1],
                                      N_LE[..].to_vec()];
        for m in mods {
            let mut nn = [0u8; 32];
            nn[..m.len()].copy_from_slice(&m);
            let g = m[0];
            let mut a1 = [0u8; 32];
            a1[0] = 1;
            for (gg, a) in [(g, a1), (g, [0u8; 32]), (1u8, a1), (g, { let mut t = [0u8; 32]; t[0] = 2; t })] {
                h.client_new("OWNKEY", "X", gg, nn, bpub, [1u8; 32], Some(&a));
            }
        }
    }
    h.tr.finish()
}

/// C04, exhaustive: every one of the 2^32 arrays whose bytes are each 0 or N's byte at that position
pub fn run_pubkeysweep(args: &Args) -> (u64, u64) {
    let mut h = H::new(Tr::create(&args.out));
    h.reset("pubkeysweep");
    let threads = 16u64;
    let bits: u32 = if args.tier == "thorough" || args.extra.iter().any(|x| x == "full") { 32 } else { 24 };
    let total: u64 = 1u64 << bits;
    let per = total / threads;
    let mut hs = vec![];
    for t in 0..threads {
        hs.push(std::thread::spawn(move || {
            let mut refused: Vec<(u32, String)> = vec![];
            let mut accepted: u64 = 0;
            let mut changed: u64 = 0;
            let mut panicked: u64 = 0;
            for m in (t * per)..((t + 1) * per) {
                // in the reduced (quick) sweep the upper byte positions all take N's byte or all zero alternately
                let m32: u32 = if bits == 32 { m as u32 } else { (m as u32) | if m & 1 == 1 { 0xFF00_0000 } else { 0 } };
                let mut k = [0u8; 32];
                for i in 0..32 {
                    if m32 >> i & 1 == 1 {
                        k[i] = N_LE[i];
                    }
                }
                match guard(|| wow_srp::PublicKey::from_le_bytes(k)) {
                    Ok(Ok(pk)) => {
                        accepted += 1;
                        if *pk.as_le_bytes() != k {
                            changed += 1;
                        }
                    }
                    Ok(Err(e)) => refused.push((m32, match e {
                        wow_srp::error::InvalidPublicKeyError::PublicKeyIsZero => "zero".to_string(),
                        wow_srp::error::InvalidPublicKeyError::PublicKeyModLargeSafePrimeIsZero => "modN".to_string(),
                    })),
                    Err(_) => panicked += 1,
                }
                if refused.len() > 1000 {
                    break;
                }
            }
            (refused, accepted, changed, panicked)
        }));
    }
    let mut refused: Vec<(u32, String)> = vec![];
    let (mut accepted, mut changed, mut panicked) = (0u64, 0u64, 0u64);
    for x in hs {
        let (r, a, c, p) = x.join().expect("sweep thread");
        refused.extend(r);
        accepted += a;
        changed += c;
        panicked += p;
    }
    refused.truncate(64);
    let rj: Vec<Value> = refused.iter().map(|(m, k)| serde_json::json!({"mask": u32le(*m), "kind": k})).collect();
    h.tr.ev(serde_json::json!({"ev": "PubKeySweep", "bits": bits, "refused": rj,
        "accepted": [(accepted >> 16) as u64, accepted & 0xFFFF], "changed": changed, "panicked": panicked}));
    h.tr.finish()
}
