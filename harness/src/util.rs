//! Shared plumbing of the conformance harness: NDJSON trace writer, panic capture,
//! RNG-tap access, JSON helpers.  The harness only *logs*; every expected value and every
//! verdict comes from the TLA+ specification when TLC validates the trace.

use serde_json::{json, Value};
use std::fs::File;
use std::io::{BufWriter, Write};
use std::panic::{catch_unwind, AssertUnwindSafe};

pub struct Tr {
    w: BufWriter<File>,
    pub n: u64,
    pub resets: u64,
}

impl Tr {
    pub fn create(path: &str) -> Tr {
        let f = File::create(path).unwrap_or_else(|e| {
            eprintln!("harness: cannot create {}: {}", path, e);
            std::process::exit(2)
        });
        Tr { w: BufWriter::with_capacity(1 << 20, f), n: 0, resets: 0 }
    }
    pub fn ev(&mut self, v: Value) {
        serde_json::to_writer(&mut self.w, &v).unwrap();
        self.w.write_all(b"\n").unwrap();
        self.n += 1;
    }
    /// Start of an independent scenario: the model forgets all objects.
    pub fn reset(&mut self, what: &str) {
        self.resets += 1;
        self.ev(json!({"ev": "reset", "what": what}));
    }
    pub fn finish(mut self) -> (u64, u64) {
        self.w.flush().unwrap();
        (self.n, self.resets)
    }
}

pub fn b(x: &[u8]) -> Value {
    Value::Array(x.iter().map(|v| Value::from(*v)).collect())
}

pub fn u32le(x: u32) -> Value {
    b(&x.to_le_bytes())
}

pub fn u64le(x: u64) -> Value {
    b(&x.to_le_bytes())
}

/// Code points of a Rust string.
pub fn cps(s: &str) -> Value {
    Value::Array(s.chars().map(|c| Value::from(c as u32)).collect())
}

pub fn install_quiet_panic_hook() {
    std::panic::set_hook(Box::new(|_| {}));
}

/// Run a call of the library under test; a panic is data, not a harness failure.
pub fn guard<T>(f: impl FnOnce() -> T) -> Result<T, String> {
    match catch_unwind(AssertUnwindSafe(f)) {
        Ok(v) => Ok(v),
        Err(e) => {
            let msg = if let Some(s) = e.downcast_ref::<&str>() {
                s.to_string()
            } else if let Some(s) = e.downcast_ref::<String>() {
                s.clone()
            } else {
                "non-string panic".to_string()
            };
            Err(msg)
        }
    }
}

pub fn panic_res(msg: &str) -> Value {
    let mut m = msg.to_string();
    m.truncate(160);
    json!({"kind": "panic", "msg": m})
}

/// All RNG draws the library performed on this thread since the last call.
pub fn draws() -> Value {
    Value::Array(
        wow_srp::verif_hooks::take_log()
            .into_iter()
            .map(|d| json!({"site": d.site, "raw": b(&d.raw), "used": b(&d.used)}))
            .collect(),
    )
}

pub fn inject(site: &str, v: &[u8]) {
    wow_srp::verif_hooks::inject(site, v);
}

pub fn clear_hooks() {
    wow_srp::verif_hooks::clear();
}

pub fn arr32(v: &[u8]) -> [u8; 32] {
    let mut a = [0u8; 32];
    a[..v.len()].copy_from_slice(v);
    a
}

pub fn jbytes(v: &Value) -> Vec<u8> {
    v.as_array()
        .expect("byte array")
        .iter()
        .map(|x| x.as_u64().expect("byte") as u8)
        .collect()
}

pub fn jstr_from_cps(v: &Value) -> String {
    v.as_array()
        .expect("cps array")
        .iter()
        .map(|x| char::from_u32(x.as_u64().unwrap() as u32).unwrap())
        .collect()
}

pub struct Args {
    pub out: String,
    pub seed: u64,
    pub tier: String,
    pub scen: Option<String>,
    pub n: Option<u64>,
    pub extra: Vec<String>,
}

pub fn parse_args(a: &[String]) -> Args {
    let mut r = Args { out: "trace.ndjson".into(), seed: 1, tier: "quick".into(), scen: None, n: None, extra: vec![] };
    let mut i = 0;
    while i < a.len() {
        match a[i].as_str() {
            "--out" => { r.out = a[i + 1].clone(); i += 2; }
            "--seed" => { r.seed = a[i + 1].parse().expect("seed"); i += 2; }
            "--tier" => { r.tier = a[i + 1].clone(); i += 2; }
            "--scen" => { r.scen = Some(a[i + 1].clone()); i += 2; }
            "--n" => { r.n = Some(a[i + 1].parse().expect("n")); i += 2; }
            x => { r.extra.push(x.to_string()); i += 1; }
        }
    }
    r
}

pub fn read_ndjson(path: &str) -> Vec<Value> {
    let s = std::fs::read_to_string(path).unwrap_or_else(|e| {
        eprintln!("harness: cannot read {}: {}", path, e);
        std::process::exit(2)
    });
    s.lines()
        .filter(|l| !l.trim().is_empty())
        .map(|l| serde_json::from_str(l).unwrap_or_else(|e| {
            eprintln!("harness: bad scenario line: {}: {}", e, l);
            std::process::exit(2)
        }))
        .collect()
}


/// Unrelated calls into OTHER parts of the library, results ignored (every one under catch_unwind): made between the
/// recorded calls of a scenario on the same thread.  Each recorded call must give the specification's result whatever
/// other functions - failing ones included - ran before it.  Never called between an injection and the call it is for.
pub fn noise(k: usize) {
    use wow_srp::normalized_string::NormalizedString as NS;
    let _ = guard(|| {
        let salt16 = [k as u8; 16];
        match k % 9 {
            // (the call that FAILS comes last: whatever a refused input leaves behind meets the recorded call directly)
            0 => { let _ = wow_srp::pin::calculate_hash(1234, k as u32, &salt16, &[7u8; 16]); let _ = wow_srp::pin::calculate_hash(12, 5, &salt16, &salt16); }
            1 => { let _ = wow_srp::pin::verify_client_pin_hash(123456, 1, &salt16, &salt16, &[1u8; 20]); let _ = wow_srp::pin::verify_client_pin_hash(999, 1, &salt16, &salt16, &[0u8; 20]); }
            2 => { let _ = wow_srp::integrity::login_integrity_check_generic(&[1, 2, 3, k as u8], &salt16, &[9u8; 32]); let _ = wow_srp::integrity::reconnect_integrity_check(&salt16); }
            3 => { let _ = NS::new("ok"); let _ = NS::new("waytoolongforanormalizedstring"); let _ = NS::new("bad\u{1}name"); }
            4 => { let _ = wow_srp::PublicKey::from_le_bytes([k as u8 | 1; 32]); let _ = wow_srp::PublicKey::from_le_bytes([0u8; 32]); let _ = wow_srp::PublicKey::from_le_bytes(wow_srp::LARGE_SAFE_PRIME_LITTLE_ENDIAN); }
            5 => {
                let u = NS::new("NOISE").unwrap();
                let _ = wow_srp::vanilla_header::ProofSeed::new().into_server_header_crypto(&u, [k as u8; 40], [0u8; 20], 1);
                let (_, mut c) = wow_srp::tbc_header::ProofSeed::new().into_client_header_crypto(&u, [k as u8; 40], 2);
                let mut d = [1u8, 2, 3, 4, 5, 6, 7];
                c.encrypt(&mut d);
                let (_, mut w) = wow_srp::wrath_header::ProofSeed::new().into_client_header_crypto(&u, [3u8; 40], 4);
                let _ = w.attempt_decrypt_server_header([0xFF, 1, 2, 3]);
            }
            6 => {
                let card = wow_srp::matrix_card::MatrixCard::new(2, 4, 4);
                let mut v = wow_srp::matrix_card::MatrixCardVerifier::new(2, 4, k as u64, 4, &[5u8; 40]);
                let _ = v.get_matrix_coordinates(0);
                let _ = v.get_matrix_coordinates(9);
                let _ = wow_srp::matrix_card::verify_matrix_card_hash(&card, 2, 7, &[5u8; 40], &[0u8; 20]);
            }
            7 => {
                // a refused login
                let v = wow_srp::server::SrpVerifier::from_username_and_password(NS::new("NOISE").unwrap(), NS::new("PW").unwrap());
                let p = v.into_proof();
                let a = wow_srp::PublicKey::from_le_bytes([0x42u8; 32]).unwrap();
                let _ = p.into_server(a, [k as u8; 20]);
            }
            _ => {
                let mut n = [0u8; 32];
                n[0] = 23;
                let b1 = wow_srp::PublicKey::from_le_bytes({ let mut x = [0u8; 32]; x[0] = 4; x }).unwrap();
                let c = wow_srp::client::SrpClientChallenge::new(NS::new("NOISE").unwrap(), NS::new("OTHER").unwrap(), 5, n, b1, [1u8; 32]);
                let _ = c.verify_server_proof([0u8; 20]);
            }
        }
    });
    crate::util::clear_hooks();
}

/// Values that read the same as `bytes` when every unit (a byte, or a 32-bit word in either byte order) is printed WITHOUT
/// zero padding (hexadecimal or decimal) and the pieces are concatenated, but are different values: the digits of two
/// neighbouring units regrouped.  A comparison made on such a rendering cannot tell them apart.
pub fn regroup_variants(bytes: &[u8]) -> Vec<Vec<u8>> {
    fn resplit(sa: &str, sb: &str, radix: u32, max: u64) -> Vec<(u64, u64)> {
        let s = format!("{}{}", sa, sb);
        let mut out = vec![];
        for cut in 1..s.len() {
            let (x, y) = s.split_at(cut);
            if (x.len() > 1 && x.starts_with('0')) || (y.len() > 1 && y.starts_with('0')) {
                continue;
            }
            if let (Ok(a), Ok(b)) = (u64::from_str_radix(x, radix), u64::from_str_radix(y, radix)) {
                if a <= max && b <= max && cut != sa.len() {
                    out.push((a, b));
                }
            }
        }
        out
    }
    let mut out: Vec<Vec<u8>> = vec![];
    // neighbouring bytes
    for i in 0..bytes.len().saturating_sub(1) {
        for radix in [16u32, 10] {
            let (sa, sb) = if radix == 16 { (format!("{:x}", bytes[i]), format!("{:x}", bytes[i + 1])) } else { (bytes[i].to_string(), bytes[i + 1].to_string()) };
            for (a, b) in resplit(&sa, &sb, radix, 255) {
                let mut v = bytes.to_vec();
                v[i] = a as u8;
                v[i + 1] = b as u8;
                out.push(v);
            }
        }
    }
    // neighbouring 32-bit words, big and little endian
    if bytes.len() % 4 == 0 {
        for be in [true, false] {
            let words: Vec<u32> = bytes.chunks(4).map(|c| if be { u32::from_be_bytes([c[0], c[1], c[2], c[3]]) } else { u32::from_le_bytes([c[0], c[1], c[2], c[3]]) }).collect();
            for i in 0..words.len().saturating_sub(1) {
                for (a, b) in resplit(&format!("{:x}", words[i]), &format!("{:x}", words[i + 1]), 16, u32::MAX as u64) {
                    let mut v = bytes.to_vec();
                    let (wa, wb) = if be { ((a as u32).to_be_bytes(), (b as u32).to_be_bytes()) } else { ((a as u32).to_le_bytes(), (b as u32).to_le_bytes()) };
                    v[4 * i..4 * i + 4].copy_from_slice(&wa);
                    v[4 * i + 4..4 * i + 8].copy_from_slice(&wb);
                    out.push(v);
                }
            }
        }
    }
    out.retain(|v| v != bytes);
    out.sort();
    out.dedup();
    out
}

// ---- 256-bit little-endian helpers (only used to CHOOSE inputs near a value the library computes; never as an oracle)
pub fn le_cmp(a: &[u8; 32], b: &[u8; 32]) -> std::cmp::Ordering {
    for i in (0..32).rev() {
        if a[i] != b[i] { return a[i].cmp(&b[i]); }
    }
    std::cmp::Ordering::Equal
}
pub fn le_add(a: &[u8; 32], b: &[u8; 32]) -> ([u8; 32], bool) {
    let mut o = [0u8; 32];
    let mut c = 0u16;
    for i in 0..32 { let t = a[i] as u16 + b[i] as u16 + c; o[i] = t as u8; c = t >> 8; }
    (o, c != 0)
}
pub fn le_sub(a: &[u8; 32], b: &[u8; 32]) -> ([u8; 32], bool) {
    let mut o = [0u8; 32];
    let mut br = 0i16;
    for i in 0..32 { let t = a[i] as i16 - b[i] as i16 - br; if t < 0 { o[i] = (t + 256) as u8; br = 1; } else { o[i] = t as u8; br = 0; } }
    (o, br != 0)
}
/// (a + b) mod n for a, b < n < 2^256
pub fn le_add_mod(a: &[u8; 32], b: &[u8; 32], n: &[u8; 32]) -> [u8; 32] {
    let (s, carry) = le_add(a, b);
    if carry || le_cmp(&s, n) != std::cmp::Ordering::Less { le_sub(&s, n).0 } else { s }
}
/// (a - b) mod n for a, b < n
pub fn le_sub_mod(a: &[u8; 32], b: &[u8; 32], n: &[u8; 32]) -> [u8; 32] {
    let (d, borrow) = le_sub(a, b);
    if borrow { le_add(&d, n).0 } else { d }
}
