//! Shared plumbing of the conformance harness: NDJSON trace writer, panic capture,
//! RNG-tap access, JSON helpers.  The harness only *logs*; every expected value and every
//! verdict comes from the TLA+ specification when TLC validates the trace.

use serde_json::{json, Value};
use std::fs::File;
use std::io::{BufWriter, Write};
use std::panic::{catch_unwind, AssertUnwindSafe};

pub struct Tr {
    w: BufWriter<File>,
    pub n: u64,
    pub resets: u64,
}

impl Tr {
    pub fn create(path: &str) -> Tr {
        let f = File::create(path).unwrap_or_else(|e| {
            eprintln!("harness: cannot create {}: {}", path, e);
            std::process::exit(2)
        });
        Tr { w: BufWriter::with_capacity(1 << 20, f), n: 0, resets: 0 }
    }
    pub fn ev(&mut self, v: Value) {
        serde_json::to_writer(&mut self.w, &v).unwrap();
        self.w.write_all(b"\n").unwrap();
        self.n += 1;
    }
    /// Start of an independent scenario: the model forgets all objects.
    pub fn reset(&mut self, what: &str) {
        self.resets += 1;
        self.ev(json!({"ev": "reset", "what": what}));
    }
    pub fn finish(mut self) -> (u64, u64) {
        self.w.flush().unwrap();
        (self.n, self.resets)
    }
}

pub fn b(x: &[u8]) -> Value {
    Value::Array(x.iter().map(|v| Value::from(*v)).collect())
}

pub fn u32le(x: u32) -> Value {
    b(&x.to_le_bytes())
}

pub fn u64le(x: u64) -> Value {
    b(&x.to_le_bytes())
}

/// Code points of a Rust string.
pub fn cps(s: &str) -> Value {
    Value::Array(s.chars().map(|c| Value::from(c as u32)).collect())
}

pub fn install_quiet_panic_hook() {
    std::panic::set_hook(Box::new(|_| {}));
}

/// Run a call of the library under test; a panic is data, not a harness failure.
pub fn guard<T>(f: impl FnOnce() -> T) -> Result<T, String> {
    match catch_unwind(AssertUnwindSafe(f)) {
        Ok(v) => Ok(v),
        Err(e) => {
            let msg = if let Some(s) = e.downcast_ref::<&str>() {
                s.to_string()
            } else if let Some(s) = e.downcast_ref::<String>() {
                s.clone()
            } else {
                "non-string panic".to_string()
            };
            Err(msg)
        }
    }
}

pub fn panic_res(msg: &str) -> Value {
    let mut m = msg.to_string();
    m.truncate(160);
    json!({"kind": "panic", "msg": m})
}

/// All RNG draws the library performed on this thread since the last call.
pub fn draws() -> Value {
    Value::Array(
        wow_srp::verif_hooks::take_log()
            .into_iter()
            .map(|d| json!({"site": d.site, "raw": b(&d.raw), "used": b(&d.used)}))
            .collect(),
    )
}

pub fn inject(site: &str, v: &[u8]) {
    wow_srp::verif_hooks::inject(site, v);
}

pub fn clear_hooks() {
    wow_srp::verif_hooks::clear();
}

pub fn arr32(v: &[u8]) -> [u8; 32] {
    let mut a = [0u8; 32];
    a[..v.len()].copy_from_slice(v);
    a
}

pub fn jbytes(v: &Value) -> Vec<u8> {
    v.as_array()
        .expect("byte array")
        .iter()
        .map(|x| x.as_u64().expect("byte") as u8)
        .collect()
}

pub fn jstr_from_cps(v: &Value) -> String {
    v.as_array()
        .expect("cps array")
        .iter()
        .map(|x| char::from_u32(x.as_u64().unwrap() as u32).unwrap())
        .collect()
}

pub struct Args {
    pub out: String,
    pub seed: u64,
    pub tier: String,
    pub scen: Option<String>,
    pub n: Option<u64>,
    pub extra: Vec<String>,
}

pub fn parse_args(a: &[String]) -> Args {
    let mut r = Args { out: "trace.ndjson".into(), seed: 1, tier: "quick".into(), scen: None, n: None, extra: vec![] };
    let mut i = 0;
    while i < a.len() {
        match a[i].as_str() {
            "--out" => { r.out = a[i + 1].clone(); i += 2; }
            "--seed" => { r.seed = a[i + 1].parse().expect("seed"); i += 2; }
            "--tier" => { r.tier = a[i + 1].clone(); i += 2; }
            "--scen" => { r.scen = Some(a[i + 1].clone()); i += 2; }
            "--n" => { r.n = Some(a[i + 1].parse().expect("n")); i += 2; }
            x => { r.extra.push(x.to_string()); i += 1; }
        }
    }
    r
}

pub fn read_ndjson(path: &str) -> Vec<Value> {
    let s = std::fs::read_to_string(path).unwrap_or_else(|e| {
        eprintln!("harness: cannot read {}: {}", path, e);
        std::process::exit(2)
    });
    s.lines()
        .filter(|l| !l.trim().is_empty())
        .map(|l| serde_json::from_str(l).unwrap_or_else(|e| {
            eprintln!("harness: bad scenario line: {}: {}", e, l);
            std::process::exit(2)
        }))
        .collect()
}
