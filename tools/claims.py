# executed by gen_manifest.py: one claim(...) per registered check
claim("C01",
 "TLC enumerates every private-key pair (a,b) in small prime groups with the full-size Srp6 formulas (invariants HonestAgree, AcceptImpliesKey, HonestSNonZero); at full size every step of hundreds (quick) to tens of thousands (thorough) of honest logins over credential classes, case variants, storage round trips and rare key classes is validated byte-exactly against the spec by TLC, which also measures the classes reached.",
 "Full-size key space is sampled/directed, not enumerated; exhaustive only in the small groups listed in evidence.", T, "4-C01")
claim("C02",
 "Design: in small groups the server accepts only when its key equals the client's (all a,b, wrong passwords included) and a refusal carries <<presented, expected>> with no session. Code: every one-bit change of M1 and M2, one-bit changes of A, B and salt, other passwords/usernames and cross-session mixes are executed from clones of one typestate and each outcome (accept/reject, error payload, absence of a session) is validated against the spec's AcceptIff by TLC.",
 "Bit positions of A/B/salt are strided in quick for all but the first baseline session; all positions in thorough.", T, "4-C02")
claim("C03",
 "TLC enumerates all (a,B) for announced small prime groups and several generators and emits them as scenarios; the real client is run on each with injected a and every A, M1 is compared byte-exactly by TLC; the interleave is driven on all 32 leading-zero counts through hook H2; every value leaving the API in full-size honest runs (v, B, A, M1, M2, K, reconnect proofs) is compared with the spec, which itself reproduces the repository's vector files.",
 "Large announced groups are sampled; the spec's formulas are validated against the upstream vectors (spec self-check).", T, "4-C03")
claim("C04",
 "Every PublicKey::from_le_bytes call on directed families (0, N, +-d*256^i neighbours, every single-byte substitution of 0 and N, sub-masks of N, 2N mod 2^256, random) is validated by TLC against KeyValid = (k mod N != 0), the specific error kind and the unchanged accessor; the server's and client's own keys are validated on every IntoProof / ClientNew event.",
 "2^256 keys cannot be enumerated; the 2^32 zero-or-N-byte family is swept natively in thorough.", T, "4-C04")
claim("C05",
 "TLC explores all histories of reconnect attempts (9 attempt kinds incl. replays of accepted and rejected pairs, stale challenge, wrong key/user, bit flips) up to length 4 (quick) / 5 (thorough) on the symbolic instance of the Auth spec with invariants ReconnectIff, ChallengeSingleUse, LegitAlwaysReconnects, DrawsFresh; every maximal history is replayed on a real SrpServer/SrpClient pair and every attempt's verdict, the offered challenge and its refresh are validated by TLC.",
 "Histories longer than the bound are covered by a long legitimate run only.", T, "4-C05")
claim("C14",
 "Hostile A/M1/reconnect data against accounts with ordinary and unusual verifiers and hostile B/salt/M2 against the client (incl. values driving S to 0) are executed under catch_unwind; TLC requires every outcome to be the spec's Ok/Err/bool (tag C14.total; the spec's only panics are the two documented ones) and evaluates the Total invariant in every trace state.",
 "Peer-controlled values are directed and sampled, exhaustive only in the small-group adversary model.", T, "4-C14")
