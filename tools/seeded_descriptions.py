#!/usr/bin/env python3
"""Adds the one-line description / trigger of every seeded change to its meta.json (hand-written from the notes)."""
import json, os
V = os.path.dirname(os.path.dirname(os.path.abspath(__file__)))
D = json.load(open(os.path.join(V, "seeded", "summary.json")))
D.update({
 "C01-m3": {"change": "from_database_values reduces the stored verifier mod N and re-pads it at the wrong end (two cooperating sites)", "needs": "records whose verifier has a zero top byte (1 in 256), after export + re-import"},
 "C02-m3": {"change": "client-side MatchProofsError carries M1 instead of the M2 the client computed", "needs": "a refused server proof; only the error payload"},
 "C03-m3": {"change": "H(N) hashed over the minimal number instead of the 32-byte field", "needs": "announced primes below 2^248"},
 "C04-m3": {"change": "mod_large_safe_prime_is_zero tests N % A instead of A % N", "needs": "client's own key A = 1 (e.g. private key 0, or g = 1 mod N)"},
 "C05-m3": {"change": "two pre-drawn challenges alternate; the retired one is re-drawn only after a rejection", "needs": "two accepted reconnects, then the first pair replayed"},
 "C06-m3": {"change": "Wrath client uses a fresh seed for the proof when the server seed equals its own", "needs": "equal client and server seeds"},
 "C07-m3": {"change": "vanilla decrypt writes the carried byte back only if it is non-zero", "needs": "a call whose last wire byte is 0x00, then another call"},
 "C08-m3": {"change": "TBC encrypt_server_header clears bit 7 of the size's high byte", "needs": "sizes >= 0x8000 through the typed helper"},
 "C09-m3": {"change": "RC4 write-back skips i when it is 0", "needs": "a half's byte count reaching a multiple of 256 exactly at a call boundary"},
 "C10-m3": {"change": "long-header threshold tests size as u16", "needs": "sizes >= 0x10000 whose middle byte is below 0x80"},
 "C10-m4": {"change": "long-header threshold size > 0x8000", "needs": "size exactly 0x8000"},
 "C11-m3": {"change": "TBC read_and_decrypt_server_header uses read instead of read_exact", "needs": "fragmenting, interrupting or early-failing reader"},
 "C11-m4": {"change": "Wrath encrypt_client_header swaps the two high opcode bytes", "needs": "opcodes >= 0x10000 whose bytes 2 and 3 differ"},
 "C12-m3": {"change": "vanilla unsplit gives the decrypter the encrypter's index", "needs": "re-join after unbalanced traffic (mod 40)"},
 "C12-m4": {"change": "TBC key derivation through a thread-local last-key cache that matches on 20 of 40 key bytes", "needs": "an object built right after another whose key shares the first 20 bytes"},
 "C13-m3": {"change": "two-pass validation reports the first non-ASCII character before an earlier control character", "needs": "a control character before a non-ASCII character"},
 "C16-m3": {"change": "verify folds byte differences with XOR", "needs": "a presented hash whose byte differences cancel (e.g. two bytes with the same mask), 1 in 256 random hashes"},
 "C17-m3": {"change": "generic function feeds 4096-byte blocks and drops part of the data", "needs": "buffers of 4095 bytes or more"},
 "C18-m3": {"change": "to_printer prints each cell as a number (leading zeros dropped)", "needs": "cells starting with digit 0 and digit_count >= 2"},
 "C19-m3": {"change": "num-bigint path reduces the exponent modulo N-1", "needs": "composite / even / tiny announced moduli"},
 "C14-m3": {"change": "From<Integer> for keys copies 64-bit words and indexes four of them", "needs": "server secret S below 2^192: verifier 1 or N+1 with client key 1 or N+1"},
 "C15-m3": {"change": "registration salt has its top bit cleared", "needs": "bit 255 of the salt over many registrations"},
 "C01-m5": {"change": "into_proof replaces an all-zero stored salt by a random one", "needs": "an account record whose salt is 32 zero bytes"},
 "C02-m5": {"change": "'constant-time' proof comparison accumulates with XOR instead of OR", "needs": "differences in several bytes that cancel (same mask in two bytes); 1 in 256 wrong passwords"},
 "C03-m5": {"change": "as_equal_slice strips zero pairs testing only the first byte of each pair", "needs": "S = 00 xx 00 ... (odd zero run, then a zero after the next byte)"},
 "C04-m5": {"change": "check_public_key compares only the significant bytes with N", "needs": "the 31 keys N mod 256^j"},
 "C05-m5": {"change": "SrpClientChallenge::new stores the password as the username", "needs": "a legitimate reconnect when password and username differ"},
 "C06-m5": {"change": "vanilla server starts comparing the proof at its first non-zero byte", "needs": "a correct proof starting with 0x00 and byte 0 altered"},
 "C07-m5": {"change": "vanilla decrypt works in 256-byte blocks with a stale carried byte", "needs": "a single decrypt call longer than 256 bytes"},
 "C08-m5": {"change": "TBC encrypter: skip(index).cycle() instead of cycle().skip(index)", "needs": "a call starting at a non-zero key position and crossing the end of the 20-byte key"},
 "C09-m5": {"change": "RC4 bulk path advances by 8 on a short last chunk", "needs": "traffic after a raw call of >= 8 bytes whose length is not a multiple of 8"},
 "C10-m5": {"change": "Wrath client keeps the first started long header in its stash", "needs": "a second long header on the connection"},
 "C11-m5": {"change": "Wrath client read path never fills the stash", "needs": "reader failing exactly at the fifth byte, then decrypt_large_server_header"},
 "C12-m5": {"change": "manual Clone of the Wrath client decrypter zeroes the stash", "needs": "a clone taken between the 4-byte attempt and the fifth byte"},
 "C13-m5": {"change": "hand-written Ord: bytes 8..16 compared with native (little-endian) significance", "needs": "two strings equal in the first 8 bytes and differing in two later positions"},
 "C14-m5": {"change": "TBC decrypt indexes data[len-1]", "needs": "a zero-length decrypt call"},
 "C15-m5": {"change": "card digits drawn as byte % 10 (digits 0..5 slightly over-represented)", "needs": "a frequency test over hundreds of thousands of digits"},
 "C16-m5": {"change": "verify compares with calculate_hash(..).unwrap_or_default()", "needs": "an invalid PIN and a presented hash of twenty zero bytes"},
 "C17-m5": {"change": "Windows checksum returns zeros when all five files are empty", "needs": "five empty file arguments"},
 "C18-m5": {"change": "generate_coordinates loops min(count, cells - 1) rounds", "needs": "challenge count equal to the number of cells"},
 "C19-m5": {"change": "num-bigint path: From<u8> goes through from_signed_bytes_le", "needs": "an announced generator >= 128"},
 "C01-m6": {"change": "NormalizedString::new clears bit 5 of every byte >= 'a' when the input has a lower-case letter, so { | } ~ become [ \\ ] ^", "needs": "a credential containing one of { | } ~ typed once with and once without a lower-case letter"},
 "C02-m6": {"change": "into_server first reduces the presented A modulo N", "needs": "A + N presented with the M1 computed for A (anticipated from the agent's report: the A + N case was added to the tamper driver before this was run)"},
 "C03-m6": {"change": "M2 hashes A as a minimal little-endian number instead of the 32-byte field", "needs": "a client public key with a zero top byte (1 in 256)"},
 "C04-m6": {"change": "check_public_key also refuses 2N mod 2^256 (carry dropped in a shift helper)", "needs": "exactly the array 2N - 2^256"},
 "C05-m6": {"change": "reconnect proof compared only up to the presented proof's last non-zero byte", "needs": "a prefix of the right proof followed by zero bytes (attempt kind truncProof, added before this was run)"},
 "C06-m6": {"change": "TBC world client clamps a zero server seed to 1", "needs": "TBC, client role, server seed 0"},
 "C07-m6": {"change": "vanilla encrypt zips the data with at most two rounds of key bytes", "needs": "a single encrypt call longer than 80 - start bytes"},
 "C08-m6": {"change": "TBC decrypt handles byte pairs and wraps the position with 'if i >= 20 { i = 0 }'", "needs": "an odd position at the start of a call and a pair covering key positions 19 and 0"},
 "C09-m6": {"change": "RC4 unrolled by two, first counter step saturating", "needs": "i = 255 at the start of a pair (odd byte count before a call)"},
 "C10-m6": {"change": "Wrath client Read path resumes a 'pending' long header from a stale marker in the stash", "needs": "a long header completed through the two-step path, then a header through the Read path"},
 "C11-m6": {"change": "Wrath server read path retries read_exact on WouldBlock up to three times", "needs": "a reader failing with WouldBlock after delivering part of a client header (WouldBlock/TimedOut added to the quick configuration before this was run)"},
 "C12-m6": {"change": "vanilla is_pair_of folds the key difference with XOR", "needs": "two keys whose byte differences cancel (same mask in two bytes; added to the unsplit driver before this was run)"},
 "C13-m6": {"change": "SWAR upper-casing of the 16-byte buffer with a borrow between neighbouring bytes", "needs": "one of { | } ~ directly followed by z"},
 "C14-m6": {"change": "Wrath client reads the fifth header byte with bytes().next().unwrap()", "needs": "a long header cut after four bytes (end of stream)"},
 "C15-m6": {"change": "reconnect challenge refresh XORs one 64-bit draw cyclically into the old challenge", "needs": "consecutive challenges of one server: old XOR new has equal halves"},
 "C16-m6": {"change": "remap_pin_grid returns the natural grid when the seed is a multiple of 9!", "needs": "grid seed k * 362880 (k = 1..9 mod 10!)"},
 "C17-m6": {"change": "Windows checksum drops leading zero bytes of the salt", "needs": "a checksum salt starting with 0x00"},
 "C18-m6": {"change": "get_number_at_coordinates clamps the exclusive range end to len - 1", "needs": "the last cell of the card"},
 "C19-m6": {"change": "num-bigint modpow shortcut returns |base| for bases of magnitude <= 1", "needs": "B - k*g^x = -1 on the client (announced small groups)"},
})
json.dump(D, open(os.path.join(V, "seeded", "summary.json"), "w"), indent=1)
n = 0
for d, v in D.items():
    mp = os.path.join(V, "seeded", d, "meta.json")
    if os.path.exists(mp):
        m = json.load(open(mp)); m["change"] = v["change"]; m["needs_to_manifest"] = v.get("needs", v.get("needs_to_manifest", "")); json.dump(m, open(mp, "w"), indent=1); n += 1
print(n, "metas updated")
