#!/bin/sh
# silence test: every quick check under several seeds on the unchanged tree; one line per run in out/seeds.log
cd "$(dirname "$0")/.."
for s in "$@"; do
  for p in C01 C02 C03 C04 C05 C06 C07 C08 C09 C10 C11 C12 C13 C14 C15 C16 C17 C18 C19; do
    VERIF_SEED=$s ./check $p quick > out/seedrun-$p.log 2>&1
    echo "seed=$s $p rc=$? $(grep -E '^OK|^VIOLATION|^TOOL-ERROR' out/seedrun-$p.log | head -1 | cut -c1-150)" >> out/seeds.log
  done
done
