#!/bin/sh
# usage: tools/refactor_test.sh <dir with r*.diff>  - applies each behaviour-preserving patch to /repo, runs every quick
# check (all must stay silent), reverts.  Result lines in out/refactor.log
cd "$(dirname "$0")/.."
: > out/refactor.log
for f in "$1"/r*.diff; do
  n=$(basename "$f" .diff)
  if [ -n "$(git -C /repo status --porcelain)" ]; then echo "/repo not clean" >> out/refactor.log; exit 2; fi
  if ! git -C /repo apply "$f"; then echo "$n: patch does not apply" >> out/refactor.log; continue; fi
  tools/run_all.sh quick
  cp out/all-quick.log out/refactor-$n.log
  git -C /repo checkout -- .
  git -C /repo clean -fdq src 2>/dev/null
  echo "$n: $(grep -c ' rc=0 ' out/refactor-$n.log) silent, $(grep -vc ' rc=0 ' out/refactor-$n.log) not: $(grep -v ' rc=0 ' out/refactor-$n.log | cut -c1-160 | tr '\n' '|')" >> out/refactor.log
done
echo ALLDONE >> out/refactor.log
