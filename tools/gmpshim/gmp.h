/* Version shim: gmp-mpfr-sys 1.7 (use-system-libs) insists on GMP >= 6.3.0; the sandbox has 6.2.1 and no m4 to
 * build the bundled copy.  The API used by rug is unchanged between the two, so report 6.3.0. */
#include_next <gmp.h>
#undef __GNU_MP_VERSION_MINOR
#define __GNU_MP_VERSION_MINOR 3
#undef __GNU_MP_VERSION_PATCHLEVEL
#define __GNU_MP_VERSION_PATCHLEVEL 0
