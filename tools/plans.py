"""Per-property verification plans for /verif/check."""
import json, os, re, sys, time, shutil, glob
import vlib
from vlib import V, OUT, log, ToolError

KNOWN = os.path.join(V, "known_findings.json")


def load_known():
    try:
        return json.load(open(KNOWN))
    except FileNotFoundError:
        return {"open": [], "fixed": []}


class Run:
    def __init__(self, pid, tier, seed):
        self.pid, self.tier, self.seed = pid, tier, seed
        self.t0 = time.time()
        self.dir = os.path.join(OUT, "%s-%s" % (pid, tier))
        shutil.rmtree(self.dir, ignore_errors=True)
        os.makedirs(self.dir, exist_ok=True)
        os.makedirs(os.path.join(OUT, "replays"), exist_ok=True)
        for old in glob.glob(os.path.join(OUT, "replays", "%s-%s-*" % (pid, tier))):
            os.remove(old)
        self.binary = None
        self.binary_fast = None
        self.states = 0
        self.transitions = 0
        self.models = []
        self.traces = 0          # scenarios (reset-delimited) validated against the implementation
        self.events = 0
        self.stats = {}
        self.samples = []
        self.violations = []     # dicts
        self.known_hits = []
        self.notes = []
        self.exhaustive = {}
        self.assumptions = []
        self.extra = {}
        self.known = load_known()
        self.thorough = tier == "thorough"

    # ------------------------------------------------------------------ building blocks
    def harness_bin(self, fast=False):
        if fast:
            if not self.binary_fast:
                self.binary_fast, w = vlib.build_harness(fast=True)
                log("built harness (srp-fast-math) from /repo working tree in %.1fs" % w)
            return self.binary_fast
        if not self.binary:
            self.binary, w = vlib.build_harness()
            log("built harness from /repo working tree in %.1fs" % w)
        return self.binary

    def model(self, name, module, cfg=None, workers=8, timeout=3000, coverage=False, xmx=None, extra=None, exhaustive_note=None):
        r = vlib.run_tlc("%s-%s-%s" % (self.pid, self.tier, name), module, cfg=cfg, workers=workers,
                         timeout=timeout, coverage=coverage, xmx=xmx or "4g -Xmn192m", extra=extra)
        self.states += r.distinct
        self.transitions += r.generated
        self.models.append({"model": module, "cfg": cfg or module + ".cfg", "distinct_states": r.distinct,
                            "states_generated": r.generated, "wall_s": round(r.wall, 1),
                            "scenarios_emitted": len(r.replay)})
        if r.invariant:
            path = os.path.join(OUT, "replays", "%s-%s-model-%s.txt" % (self.pid, self.tier, name))
            with open(path, "w") as f:
                f.write(r.out[-200000:])
            self.violations.append({"kind": "model-invariant", "model": module, "invariant": r.invariant, "replay": path,
                                    "tags": ["%s.model.%s" % (self.pid, r.invariant)]})
            log("model %s: invariant %s violated (counterexample in %s)" % (module, r.invariant, path))
            return r
        if r.rc != 0 or r.generated == 0:
            raise ToolError("TLC failed on %s (%s): rc=%s\n%s" % (module, cfg, r.rc, "\n".join(r.errors[:10]) or r.out[-3000:]))
        if coverage and r.zero_cov:
            raise ToolError("vacuous model %s: actions never taken: %s" % (module, r.zero_cov))
        log("model %-18s %-24s %9d distinct states %10d generated %6.1fs%s" % (module, cfg or "", r.distinct, r.generated, r.wall,
            ("  %d scenarios" % len(r.replay)) if r.replay else ""))
        if exhaustive_note:
            self.exhaustive[name] = exhaustive_note
        return r

    def scen_file(self, name, objs):
        p = os.path.join(self.dir, name + ".scen.ndjson")
        vlib.write_ndjson(p, objs)
        if objs:
            self.samples.append({"scenario_from_TLC": name, "example": objs[len(objs) // 2]})
        return p

    def harness(self, mode, scen=None, n=None, extra=None, fast=False, tag=None, timeout=3000):
        out = os.path.join(self.dir, "%s%s.ndjson" % (tag or mode, "-fast" if fast else ""))
        ev, sc = vlib.run_harness(self.harness_bin(fast), mode, out, self.seed, self.tier, scen=scen, n=n, extra=extra, timeout=timeout)
        log("harness %-14s %8d events %6d scenarios -> %s" % (mode, ev, sc, os.path.relpath(out, V)))
        return out

    def validate(self, trace, tracemod, max_events=12000, parallel=4, timeout=3000):
        files = vlib.split_trace(trace, max_events)
        t0 = time.time()
        res = vlib.validate_traces("%s-%s-%s" % (self.pid, self.tier, os.path.basename(trace)[:-7]), tracemod, files, timeout=timeout, parallel=parallel)
        nviol = 0
        for f, r in res:
            self.states += r.distinct
            self.transitions += r.generated
            if r.stuck or (r.rc != 0 and not r.viol and not r.rejected):
                raise ToolError("trace %s not consumed by %s (harness/spec mismatch, not a verdict):\n%s\n%s" % (
                    f, tracemod, r.stuck or "", "\n".join(r.errors[:8]) or r.out[-2500:]))
            if r.unparsed:
                raise ToolError("could not parse every VIOL record of %s" % f)
            if r.rejected and not r.viol:
                raise ToolError("trace %s rejected by %s without a parsed violation:\n%s" % (f, tracemod, r.out[-1500:]))
            if not r.stats:
                raise ToolError("trace validation of %s produced no STATS line:\n%s" % (f, r.out[-2500:]))
            for k, v in r.stats.items():
                self.stats[k] = self.stats.get(k, 0) + v
            lines = None
            for (line, ev, tags) in r.viol:
                nviol += 1
                if lines is None:
                    lines = open(f).read().splitlines()
                self._trace_violation(f, lines, line, ev, tags, tracemod)
        self.events += sum(r.stats.get("events", 0) for _, r in res)
        self.traces += sum(r.stats.get("scenarios", 0) for _, r in res)
        # samples: the first two events after the first reset
        try:
            with open(files[0]) as fh:
                head = [next(fh) for _ in range(3)]
            self.samples.append({"trace": os.path.basename(trace), "first_events": [json.loads(x) if len(x) < 1500 else json.loads(x).get("ev") for x in head[1:]]})
        except Exception:
            pass
        log("validated %-28s against %-12s %8d events in %5.1fs, %d flagged steps" % (
            os.path.basename(trace), tracemod, sum(r.stats.get("events", 0) for _, r in res), time.time() - t0, nviol))
        return res

    def _trace_violation(self, f, lines, line, ev, tags, tracemod):
        own = [t for t in tags if t.startswith(self.pid + ".")]
        other = [t for t in tags if not t.startswith(self.pid + ".")]
        if other:
            self.notes.append("%s line %d (%s): tags of other properties %s" % (os.path.basename(f), line, ev, other))
        if not own:
            return
        event = json.loads(lines[line - 1])
        k = self.match_known(event, own)
        if k is not None:
            self.known_hits.append((k, f, line))
            return
        n = len(self.violations)
        if n >= 40:
            # enough replay files; further violations are only counted
            self.violations.append({"kind": "trace", "tags": own, "ev": ev, "line": line, "replay": self.violations[39]["replay"]})
            return
        # slice: from the last reset up to the failing line
        start = line - 1
        while start > 0 and not lines[start].startswith('{"ev":"reset"'):
            start -= 1
        path = os.path.join(OUT, "replays", "%s-%s-%d.json" % (self.pid, self.tier, n))
        json.dump({"property": self.pid, "tier": self.tier, "seed": self.seed, "tags": own, "trace_spec": tracemod,
                   "trace_file": f, "line": line, "event": event,
                   "slice": [json.loads(x) for x in lines[start:line]]}, open(path, "w"))
        self.violations.append({"kind": "trace", "tags": own, "ev": ev, "line": line, "replay": path})

    def match_known(self, event, tags):
        for k in self.known.get("open", []):
            if k.get("property") != self.pid:
                continue
            if k.get("ev") and k["ev"] != event.get("ev"):
                continue
            if k.get("tag") and k["tag"] not in tags:
                continue
            ok = True
            for path, val in (k.get("where_equals") or {}).items():
                cur = event
                for part in path.split("."):
                    cur = cur.get(part) if isinstance(cur, dict) else None
                if cur != val:
                    ok = False
            if ok:
                return k
        return None

    # ------------------------------------------------------------------ results
    def write_evidence(self, error=None):
        os.makedirs(os.path.join(V, "evidence"), exist_ok=True)
        cov = {
            "states": max(self.states, 0),
            "transitions": max(self.transitions, 0),
            "traces_validated_against_impl": self.traces,
            "events_validated_against_spec": self.events,
            "samples": self.samples[:8] or [{"note": "no sample recorded"}],
            "models": self.models,
            "classes_and_event_counts_measured_by_TLC": self.stats,
            "exhaustive_parts": self.exhaustive,
            "exhaustive": False,
            "rule": "states/transitions: summed from TLC's final line over every model run and trace-validation run of this check; "
                    "traces: reset-delimited scenarios executed on the real crate and accepted step by step by the trace specification",
        }
        cov.update(self.extra)
        ev = {"property_id": self.pid, "tier": self.tier, "seed": self.seed, "level": "model_checking", "coverage": cov,
              "assumptions": self.assumptions + ["TLC 1.8, JDK MessageDigest/BigInteger behind the Prim overrides (cross-checked by MCPrimSelfTest)",
                                                 "harness logs faithfully (binding demonstrations in DESIGN.md section 10)"],
              "wall_s": round(time.time() - self.t0, 1), "violations": len(self.violations)}
        if error:
            # a run that ended in a tool error decided nothing: say so instead of reporting empty model-checking counts
            ev["level"] = "other"
            ev["coverage"] = {"explanation": "TOOL ERROR - this run produced no verdict and no coverage: " + error[:1500],
                              "samples": [{"note": "none"}]}
        json.dump(ev, open(os.path.join(V, "evidence", self.pid + ".json"), "w"), indent=1)

    def finish(self):
        for n in self.notes[:20]:
            log("note: " + n)
        seen = set()
        for k, f, line in self.known_hits:
            key = json.dumps(k, sort_keys=True)
            if key in seen:
                continue
            seen.add(key)
            log("KNOWN-FINDING: property=%s %s" % (self.pid, k.get("what", "")))
        self.write_evidence()
        if self.violations:
            for v in self.violations[:25]:
                log("VIOLATION property=%s replay=%s  (%s %s)" % (self.pid, v["replay"], v.get("ev", v.get("model", "")), ",".join(v["tags"])))
            if len(self.violations) > 25:
                log("... %d more violations" % (len(self.violations) - 25))
            return 1
        log("OK property=%s tier=%s states=%d transitions=%d traces=%d events=%d wall=%.1fs" % (
            self.pid, self.tier, self.states, self.transitions, self.traces, self.events, time.time() - self.t0))
        return 0


def do_replay(run, path):
    """Re-validate the recorded slice of a violation against the trace specification."""
    rep = json.load(open(path))
    if "slice" not in rep:
        log(open(path).read()[-3000:])
        run.violations.append({"kind": "model-invariant", "replay": path, "tags": rep.get("tags", [])})
        return
    tr = os.path.join(run.dir, "replay.ndjson")
    vlib.write_ndjson(tr, [{"ev": "reset", "what": "replay"}] + [e for e in rep["slice"] if e.get("ev") != "reset"])
    run.validate(tr, rep["trace_spec"])


CORPUS = os.path.join(V, "corpus", "rare_classes.ndjson")

# ------------------------------------------------------------------------------- plans


def auth_small_models(run, which):
    for n in which:
        run.model("authsmall%d" % n, "MCAuthSmall", "MCAuthSmall_%d.cfg" % n, workers=8, coverage=True,
                  exhaustive_note="all private keys a,b in 0..%d, all credentials/salts/spellings of the cfg" % (n - 1))


def fresh_rare_classes(run):
    """thorough: search the 2-zero-byte class of S afresh, from a seed-dependent starting key (TLC, from the spec)"""
    os.makedirs(os.path.join(OUT, "gen"), exist_ok=True)
    cfg = "MCRareClasses_seed%d.cfg" % run.seed
    open(os.path.join(OUT, "gen", cfg), "w").write(
        "SPECIFICATION Spec\nCONSTANTS\n  Hash <- SHA1\n  NShards = 16\n  PerShard = 16384\n  Want = 2\n  Offset = %d\nINVARIANT Search\nCHECK_DEADLOCK FALSE\n"
        % (200000000 + (run.seed % 1000) * 1000000))
    r = run.model("rareclasses", "MCRareClasses", cfg, workers=8)
    return r.replay


def plan_C01(run):
    auth_small_models(run, [3, 5, 7, 23, 47, 59] if not run.thorough else [3, 5, 7, 23, 47, 59, 167, 227, 257])
    scen = CORPUS if os.path.exists(CORPUS) else None
    # refinement: the concrete login machine implements the abstract protocol SessionAbs (Spec => Abs!ASpec, checked by TLC)
    run.model("refine", "MCRefine", "MCRefine_%s.cfg" % ("47" if run.thorough else "23"), workers=4,
              exhaustive_note="every key pair, honest and wrong-password clients: each concrete step is a step of the abstract protocol or a stutter; "
                              "abstract invariants (agreement when both accept, no key on refusal, client only after server) on the mapped state")
    if run.thorough:
        # the composed system: registration, login, world login with the keys each side derived, header traffic, reconnects
        for cfg in ("MCSession_q.cfg", "MCSession_t.cfg"):
            run.model("session-" + cfg[10:-4], "MCSession", cfg, workers=8, coverage=(cfg == "MCSession_q.cfg"), timeout=3400,
                      exhaustive_note="composed Auth + Headers model: login in a small group, world login of the three expansions, header traffic both ways, reconnects")
        extra = fresh_rare_classes(run)
        base = [json.loads(l) for l in open(CORPUS)] if scen else []
        scen = run.scen_file("corpus", base + extra)
    tr = run.harness("auth", scen=scen)
    run.validate(tr, "TraceAuth")


def plan_C02(run):
    auth_small_models(run, [23, 47] if not run.thorough else [23, 47, 59, 167])
    # the exchange with an active attacker on the wire: every replacement of B, salt, A, M1, M2 for every key pair
    for cfg in (["MCMitm_q.cfg"] if not run.thorough else ["MCMitm_t.cfg", "MCMitm_t47.cfg"]):
        run.model("mitm-" + cfg[7:-4], "MCMitm", cfg, workers=8, coverage=True,
                  exhaustive_note="N=23 (t47: N=47): every pair of private keys x every replacement of one (thorough: two) of B, salt, A, M1, M2 "
                                  "(public keys: every value below 2N+2; proofs: bit flips, zero, the other side's, the attacker's own session)")
    tr = run.harness("tamper")
    run.validate(tr, "TraceAuth")


def plan_C03(run):
    r = run.model("clientgroups", "MCClientGroups", "MCClientGroups_%s.cfg" % ("t" if run.thorough else "q"), workers=2,
                  exhaustive_note="all a in 0..N-1 x all B in 1..N-1 for every listed prime N and generator")
    rb = run.model("clientbig", "MCClientBig", "MCClientBig_%s.cfg" % ("t" if run.thorough else "q"), workers=2,
                   exhaustive_note="built-in prime x announced generators; primes of every byte length 2..32 x generators (sampled keys)")
    rc = run.model("clientcomposite", "MCClientComposite", "MCClientComposite.cfg", workers=2,
                   exhaustive_note="announced NON-prime moduli (squares, cubes, fourth powers, products, 2^16 * p; 4 to 80 bits) x server keys that make the client's base a zero divisor, a unit, N - 1, 1 or 2")
    scen = run.scen_file("clientgroups", rb.replay + rc.replay + r.replay)
    tr = run.harness("clientgroups", scen=scen)
    run.validate(tr, "TraceAuth")
    tr = run.harness("interleave")
    run.validate(tr, "TraceAuth")
    tr = run.harness("auth", scen=CORPUS if os.path.exists(CORPUS) else None, n=2000 if run.thorough else 150)
    run.validate(tr, "TraceAuth")


def plan_C04(run):
    run.model("pubkey-scaled", "MCPubKey", "MCPubKey_scaled.cfg", workers=7,
              exhaustive_note="all 65 536 two-byte arrays for each listed two-byte prime: refused = {0, N} iff 2N >= 2^16")
    r = run.model("pubkey-own", "MCPubKey", "MCPubKey_own.cfg", workers=1)
    scen = run.scen_file("ownkey", r.replay)
    tr = run.harness("pubkey")
    run.validate(tr, "TraceAuth")
    tr = run.harness("ownkey", scen=scen)
    run.validate(tr, "TraceAuth")
    tr = run.harness("pubkeysweep")
    run.validate(tr, "TraceAuth")
    run.exhaustive["pubkeysweep"] = ("all 2^32 arrays whose bytes are each 0 or N's byte, natively" if run.thorough
                                     else "2^24 of the 2^32 zero-or-N-byte arrays (all 2^32 in thorough)")


def apalache_inductive(run):
    """Unbounded histories (design level): IndInv of spec/apalache/ReconnectInd.tla is inductive and implies C05."""
    d = os.path.join(run.dir, "apalache")
    os.makedirs(d, exist_ok=True)
    shutil.copy(os.path.join(V, "spec", "apalache", "ReconnectInd.tla"), d)
    steps = [("base", ["--init=Init", "--inv=IndInv", "--length=0"]), ("step", ["--init=IndInit", "--inv=IndInv", "--length=1"]),
             ("implies-SingleUse", ["--init=IndInit", "--inv=SingleUse", "--length=0"]),
             ("implies-OnlyCurrent", ["--init=IndInit", "--inv=OnlyCurrent", "--length=0"])]
    res = {}
    for name, args in steps:
        try:
            rc, o = vlib.sh(["apalache-mc", "check"] + args + ["ReconnectInd.tla"], timeout=600, cwd=d)
        except ToolError as e:
            res[name] = "timeout"
            continue
        if "EXITCODE: OK" in o:
            res[name] = "ok"
        elif "violation" in o.lower() and "Found" in o:
            res[name] = "violated"
            path = os.path.join(OUT, "replays", "C05-apalache-%s.txt" % name)
            open(path, "w").write(o[-20000:])
            run.violations.append({"kind": "model-invariant", "model": "ReconnectInd(apalache)", "replay": path, "tags": ["C05.model.IndInv." + name]})
        else:
            res[name] = "tool-error"
    shutil.rmtree(os.path.join(d, "_apalache-out"), ignore_errors=True)
    run.extra["apalache_inductive_invariant"] = res
    log("apalache ReconnectInd (unbounded histories): %s" % res)


def tlaps_proof(run, module="ReconnectProof", prop="C05", what="Spec => [](OnlyCurrent /\\ SingleUse): histories of any length, value sets of any size"):
    """Design-level, unbounded: tlapm checks the proof in spec/tlaps/<module>.tla (every obligation must be proved)."""
    d = os.path.join(run.dir, "tlaps-" + module)
    shutil.rmtree(d, ignore_errors=True)
    os.makedirs(d)
    shutil.copy(os.path.join(V, "spec", "tlaps", module + ".tla"), d)
    # SANY first (tlapm's own parser resolves some precedence conflicts silently); TLAPS.tla comes from tlapm's library
    std = "/opt/veriftools/tlapm/lib/tlapm/stdlib/TLAPS.tla"
    if os.path.exists(std):
        shutil.copy(std, d)
        rcs, os_ = vlib.sh(["tla-sany", module + ".tla"], timeout=300, cwd=d)
        if "Semantic processing of module " + module not in os_ or re.search(r"\*\*\* Errors|Fatal errors|conflict", os_):
            raise ToolError("SANY rejects spec/tlaps/%s.tla:\n%s" % (module, os_[-1500:]))
    try:
        rc, o = vlib.sh(["tlapm", "--threads", "4", "--cleanfp", module + ".tla"], timeout=900, cwd=d)
    except ToolError:
        rc, o = -1, "timeout"
    m = re.search(r"All (\d+) obligations? proved", o)
    if rc == 0 and m:
        res = "proved (%s obligations): %s" % (m.group(1), what)
    elif re.search(r"\d+/\d+ obligations? failed", o):
        res = "failed"
        path = os.path.join(OUT, "replays", "%s-tlaps-%s.txt" % (prop, module))
        open(path, "w").write(o[-20000:])
        run.violations.append({"kind": "model-invariant", "model": module + "(tlaps)", "replay": path, "tags": [prop + ".model.proof"]})
    else:
        res = "tool-error"
    shutil.rmtree(d, ignore_errors=True)
    run.extra["tlaps_" + module] = res
    log("tlapm %s: %s" % (module, res))


def plan_C05(run):
    if run.thorough:
        apalache_inductive(run)
        tlaps_proof(run)
    r = run.model("reconnect", "MCReconnect", "MCReconnect_%s.cfg" % ("t" if run.thorough else "q"), workers=8, coverage=True,
                  exhaustive_note="all attempt histories up to the cfg's MaxLen over 9 attempt kinds")
    hist = r.replay
    # long random behaviours of the same specification (TLC simulation mode), replayed as well
    rs = run.model("reconnect-sim", "MCReconnect", "MCReconnect_sim.cfg", workers=1,
                   extra=["-simulate", "num=%d" % (2000 if run.thorough else 150), "-depth", "41", "-seed", str(run.seed)])
    hist = hist + rs.replay
    scen = run.scen_file("reconnect", hist)
    tr = run.harness("reconnect", scen=scen)
    run.validate(tr, "TraceAuth")


def plan_C14(run):
    for n in ([23] if not run.thorough else [23, 47, 59]):
        open(os.path.join(V, "spec", "mc", "MCAdversary_small.cfg")).close()
    run.model("adversary-small", "MCAdversary", "MCAdversary_small.cfg", workers=8, coverage=True,
              exhaustive_note="N=23: every hostile A x {zero, 0xFF} proofs for every b; every hostile B in 1..2N-1 x every a; hostile M2")
    r = run.model("adversary-cases", "MCAdversary", "MCAdversary_cases.cfg", workers=1)
    scen = run.scen_file("adversary", r.replay)
    tr = run.harness("hdradv")
    run.validate(tr, "TraceCipher", max_events=3000, parallel=6)
    tr = run.harness("adversary", scen=scen)
    run.validate(tr, "TraceAuth")


def plan_C06(run):
    tr = run.harness("world")
    run.validate(tr, "TraceCipher")


def stream_plan(run, exp):
    if exp != "wrath":
        tlaps_proof(run, "StreamProof", "C07" if exp == "vanilla" else "C08",
                    "Spec => []InStep: any key length, any key, any number of bytes (XOR through its involution property only)")
        run.model("stream", "MCStream", "MCStream_%s.cfg" % exp, workers=8,
                  exhaustive_note="every reachable cipher state (i, p) x every input byte, sender and receiver in lock-step")
        tr = run.harness("sweep", extra=[exp], tag="sweep")
        run.validate(tr, "TraceCipher", max_events=600, parallel=6)
        if run.thorough:
            run.exhaustive["sweep"] = "real EncrypterHalf/DecrypterHalf brought into every state (i, p), every input byte applied (2 keys)"
    tr = run.harness("stream", extra=[exp], tag="stream")
    run.validate(tr, "TraceCipher", max_events=4000, parallel=6)


def plan_C07(run):
    stream_plan(run, "vanilla")


def plan_C08(run):
    stream_plan(run, "tbc")


def plan_C09(run):
    run.model("wrathstream", "MCWrathStream", "MCWrathStream_%s.cfg" % ("t" if run.thorough else "q"), workers=4,
              exhaustive_note="all interleavings of chunks in both directions up to MaxBytes on the real RC4-drop1024 keystreams")
    stream_plan(run, "wrath")


def plan_C10(run):
    tlaps_proof(run, "CodecProof", "C10", "marker, lengths and decode(encode) = identity for EVERY size < 2^23 and EVERY opcode < 2^16 (arithmetic form)")
    run.model("bitfacts", "MCBitFacts", "MCBitFacts.cfg", workers=1,
              exhaustive_note="the arithmetic form of CodecProof equals the specification's Bitwise codec: bit facts for all 256 bytes, encoders/decoders on boundary sizes x opcodes")
    r = run.model("wrathheader", "MCWrathHeader", "MCWrathHeader_%s.cfg" % ("t" if run.thorough else "q"), workers=8,
                  exhaustive_note="codec facts on all sizes of the configured shards; all header sequences up to MaxLen over the boundary sets")
    if run.thorough:
        run.exhaustive["codec"] = "CodecOK for all 2^23 sizes x 4 opcodes (128 shards of 65536)"
    scen = run.scen_file("wrathhdr", r.replay)
    tr = run.harness("wrathhdr", scen=scen)
    run.validate(tr, "TraceCipher", max_events=6000, parallel=6)


def plan_C11(run):
    r = run.model("headerio", "MCHeaderIO", "MCHeaderIO_%s.cfg" % ("t" if run.thorough else "q"), workers=4,
                  exhaustive_note="every composition of every header length x interruption position x failure offset x error kind, read and write")
    templ = r.replay
    if not run.thorough:
        # stratified sample: every (expansion, header kind, side, failure offset, failure kind) keeps at least one
        # template (and one in eight of its fragmentations / interruptions), chosen by the run's seed
        import random
        rnd = random.Random(run.seed)
        groups = {}
        for t in sorted(templ, key=lambda t: json.dumps(t, sort_keys=True)):
            groups.setdefault((t["exp"], t["kind"], t["side"], json.dumps(t["fail"], sort_keys=True)), []).append(t)
        templ = []
        for k in sorted(groups):
            g = groups[k]
            templ += rnd.sample(g, max(1, (len(g) + 7) // 8))
    scen = run.scen_file("hdrio", templ)
    tr = run.harness("hdrio", scen=scen)
    run.validate(tr, "TraceCipher", max_events=6000, parallel=6)


def plan_C12(run):
    scen = []
    suffix = "t" if run.thorough else "q"
    for exp in ("vanilla", "tbc", "wrath"):
        r = run.model("halves-" + exp, "MCHalves", "MCHalves_%s_%s.cfg" % (exp, suffix), workers=4,
                      exhaustive_note="all interleavings of enc/dec chunks, split, clone, unsplit up to MaxOps; all two-thread schedules of ProgLen calls each")
        scen += r.replay
    sf = run.scen_file("halves", scen)
    tr = run.harness("halves", scen=sf)
    run.validate(tr, "TraceCipher", max_events=6000, parallel=6)


def plan_C13(run):
    r = run.model("normstring", "MCNormString", "MCNormString_%s.cfg" % ("t" if run.thorough else "q"), workers=4,
                  exhaustive_note="all strings up to MaxN characters over 14 character classes; all lengths and multi-byte mixtures around the 16-byte limit; a special character at every position of every length 1..17")
    scen = run.scen_file("norm", r.replay)
    tr = run.harness("norm", scen=scen)
    run.validate(tr, "TraceAux", max_events=20000)
    run.exhaustive["sweep"] = "every Unicode scalar value (1 112 064) at each swept position, natively, run-length encoded and checked against Normalize"


def plan_C15(run):
    tr = run.harness("rng")
    run.validate(tr, "TraceAux")
    # refresh / freshness of challenges inside whole sessions (design level + traces)
    r = run.model("reconnect", "MCReconnect", "MCReconnect_q.cfg", workers=4)
    tr = run.harness("auth", n=300 if not run.thorough else 5000, tag="auth")
    run.validate(tr, "TraceAuth")


def plan_C16(run):
    run.model("pin", "MCPin", "MCPin_%s.cfg" % ("t" if run.thorough else "q"), workers=8, timeout=3400,
              exhaustive_note="LayoutNat is a permutation with rank r for every residue r of the shards" + (" (all 10! residues)" if run.thorough else ""))
    tr = run.harness("pin")
    run.validate(tr, "TraceAux", max_events=400, parallel=8)


def plan_C17(run):
    r = run.model("integrity", "MCIntegrity", "MCIntegrity_%s.cfg" % ("t" if run.thorough else "q"), workers=4,
                  exhaustive_note="all weak compositions of a byte string of length 0..MaxBytes over five arguments")
    scen = run.scen_file("integrity", r.replay)
    tr = run.harness("integrity", scen=scen)
    run.validate(tr, "TraceAux")


def plan_C18(run):
    run.model("matrix", "MCMatrix", "MCMatrix_%s.cfg" % ("t" if run.thorough else "q"), workers=8,
              exhaustive_note="all (w,h) with w*h <= MaxCells, digit counts 1..4: cells partition the data in printing order")
    tr = run.harness("matrix")
    run.validate(tr, "TraceAux", max_events=1500, parallel=6)


def plan_C19(run):
    """both big-integer back ends: identical scenario sets with identical injected randomness, compared by TLC"""
    r = run.model("clientgroups", "MCClientGroups", "MCClientGroups_%s.cfg" % ("t" if run.thorough else "q"), workers=2)
    rb = run.model("clientbig", "MCClientBig", "MCClientBig_%s.cfg" % ("t" if run.thorough else "q"), workers=2,
                   exhaustive_note="built-in prime x announced generators; primes of every byte length 2..32 x generators (sampled keys)")
    rc = run.model("clientcomposite", "MCClientComposite", "MCClientComposite.cfg", workers=2)
    cg = run.scen_file("clientgroups", rb.replay + rc.replay + (r.replay if run.thorough else r.replay[::3]))
    corpus = CORPUS if os.path.exists(CORPUS) else None
    ra = run.model("adversary-cases", "MCAdversary", "MCAdversary_cases.cfg", workers=1)
    adv = run.scen_file("adversary", ra.replay)
    ro = run.model("pubkey-own", "MCPubKey", "MCPubKey_own.cfg", workers=1)
    own = run.scen_file("ownkey", ro.replay)
    sets = [("auth", corpus, 3000 if run.thorough else 200), ("tamper", None, 6 if run.thorough else 1), ("pubkey", None, None), ("ownkey", own, None),
            ("adversary", adv, None), ("interleave", None, None), ("clientgroups", cg, None), ("degenerate", None, None)]
    run.assumptions.append("srp-fast-math is rug linked against the system GMP 6.2.1 through tools/gmpshim (bundled GMP 6.3.0 cannot be built offline: no m4)")
    for mode, scen, n in sets:
        a = run.harness(mode, scen=scen, n=n, extra=["det"], tag="pair-" + mode)
        b = run.harness(mode, scen=scen, n=n, extra=["det"], fast=True, tag="pair-" + mode)
        # both traces are cut at the same scenario boundaries (they have the same reset structure unless the builds
        # diverge, in which case the uncut pair is compared) and the pieces are compared in parallel
        pa, pb = vlib.split_trace(a, 15000), vlib.split_trace(b, 15000)
        if len(pa) != len(pb) or any(sum(1 for _ in open(x)) != sum(1 for _ in open(y)) for x, y in zip(pa, pb)):
            pa, pb = [a], [b]
        import concurrent.futures
        def one(i):
            return vlib.run_tlc("%s-%s-pair-%s-%d" % (run.pid, run.tier, mode, i), "TracePair", workers=1,
                                env={"TRACE": pa[i], "TRACE2": pb[i]}, xmx="3g -Xmn32m", timeout=3000)
        with concurrent.futures.ThreadPoolExecutor(max_workers=6) as ex:
            results = list(ex.map(one, range(len(pa))))
        nev, nviol = 0, 0
        for i, res in enumerate(results):
          a_i, b_i = pa[i], pb[i]
          run.states += res.distinct
          run.transitions += res.generated
          if res.stuck or not res.stats:
              raise ToolError("TracePair did not consume %s:\n%s" % (a_i, res.out[-2000:]))
          for k, v in res.stats.items():
              run.stats["pair." + k] = run.stats.get("pair." + k, 0) + v
          run.events += res.stats.get("events", 0)
          nev += res.stats.get("events", 0)
          nviol += len(res.viol)
          lines = None
          for (line, ev, tags) in res.viol:
            if lines is None:
                lines = open(a_i).read().splitlines()
                lines_b = open(b_i).read().splitlines()
            own = [t for t in tags if t.startswith("C19.")]
            ea = json.loads(lines[line - 1])
            eb = json.loads(lines_b[line - 1]) if line - 1 < len(lines_b) else None
            k = run.match_known(ea, own)
            if k is not None:
                run.known_hits.append((k, a_i, line))
                continue
            path = os.path.join(OUT, "replays", "%s-%s-%d.json" % (run.pid, run.tier, len(run.violations)))
            json.dump({"property": "C19", "tags": own, "mode": mode, "file": a_i, "line": line, "default_math_event": ea, "fast_math_event": eb,
                       "reproduce": "wsh %s --seed %d --tier %s det  (both builds), then TracePair" % (mode, run.seed, run.tier)}, open(path, "w"))
            run.violations.append({"kind": "pair", "tags": own, "ev": ev, "line": line, "replay": path})
          for f in (a_i, b_i):
              if f not in (a, b):
                  os.remove(f)
        log("pair %-14s %7d events compared, %d differing" % (mode, nev, nviol))
        # the spec as the single oracle: the fast build's trace validated like any other (its tags are reported as notes)
        if run.thorough or sum(1 for _ in open(b)) < 8000:
            run.validate(b, "TraceAuth")


PLANS = {"C19": plan_C19, "C13": plan_C13, "C15": plan_C15, "C16": plan_C16, "C17": plan_C17, "C18": plan_C18,
         "C06": plan_C06, "C07": plan_C07, "C08": plan_C08, "C09": plan_C09, "C10": plan_C10, "C11": plan_C11, "C12": plan_C12,
         "C01": plan_C01, "C02": plan_C02, "C03": plan_C03, "C04": plan_C04, "C05": plan_C05, "C14": plan_C14}
