#!/usr/bin/env python3
"""One-off converter: the repository's vector files -> spec/vectors/vectors.ndjson, honouring the hex
conventions of the crate's own tests (from_be_hex_str = big-endian hex, reversed and zero-padded;
from_le_hex_str / hex_decode = bytes as written).  The converted copy lives under /verif so that the
specification's self-check does not depend on files under /repo."""
import json, sys, os
R = "/repo/tests/"
def be(h, n): b = bytes.fromhex(h)[::-1]; return list(b + bytes(n - len(b)))
def le(h): return list(bytes.fromhex(h))
def s(x): return list(x.upper().encode())   # the tests build NormalizedString (upper-cased) from these
out = []
def rows(f):
    for l in open(R + f):
        p = l.split()
        if p: yield p
XSALT = be("CAC94AF32D817BA64B13F18FDEDEF92AD4ED7EF7AB0E19E9F2AE13C828AEAF57", 32)
for p in rows("srp6_internal/calculate_x_values.txt"): out.append({"fn": "x", "U": s(p[0]), "P": s(p[1]), "salt": XSALT, "exp": be(p[2], 20)})
for p in rows("srp6_internal/calculate_x_salt_values.txt"): out.append({"fn": "x", "U": s("USERNAME123"), "P": s("PASSWORD123"), "salt": be(p[0], 32), "exp": be(p[1], 20)})
for p in rows("srp6_internal/calculate_v_values.txt"): out.append({"fn": "v", "U": s(p[0]), "P": s(p[1]), "salt": be(p[2], 32), "exp": be(p[3], 32)})
for p in rows("srp6_internal/calculate_B_values.txt"): out.append({"fn": "B", "v": be(p[0], 32), "b": be(p[1], 32), "exp": be(p[2], 32)})
for p in rows("srp6_internal/calculate_A_values.txt"): out.append({"fn": "A", "a": be(p[0], 32), "exp": be(p[1], 32)})
for p in rows("srp6_internal/calculate_u_values.txt"): out.append({"fn": "u", "A": be(p[0], 32), "B": be(p[1], 32), "exp": be(p[2], 20)})
for p in rows("srp6_internal/calculate_S_values.txt"): out.append({"fn": "S", "A": be(p[0], 32), "v": be(p[1], 32), "u": be(p[2], 20), "b": be(p[3], 32), "exp": be(p[4], 32)})
for p in rows("srp6_internal/calculate_client_S_values.txt"): out.append({"fn": "clientS", "B": be(p[0], 32), "a": be(p[1], 32), "x": be(p[2], 20), "u": be(p[3], 20), "exp": be(p[4], 32)})
for p in rows("srp6_internal/calculate_interleaved_values.txt"): out.append({"fn": "interleave", "S": le(p[0]), "exp": le(p[1])})
for p in rows("srp6_internal/calculate_session_key_values.txt"): out.append({"fn": "sessionKey", "A": le(p[0]), "v": le(p[1]), "b": le(p[2]), "exp": le(p[3])})
for p in rows("srp6_internal/calculate_M1_values.txt"): out.append({"fn": "M1", "U": s(p[0]), "K": le(p[1]), "A": be(p[2], 32), "B": be(p[3], 32), "salt": be(p[4], 32), "exp": be(p[5], 20)})
for p in rows("srp6_internal/calculate_M2_values.txt"): out.append({"fn": "M2", "A": be(p[0], 32), "M1": be(p[1], 20), "K": le(p[2]), "exp": be(p[3], 20)})
for p in rows("srp6_internal/calculate_reconnection_values.txt"): out.append({"fn": "reconnect", "U": s(p[0]), "cdata": le(p[1]), "sdata": le(p[2]), "K": le(p[3]), "exp": le(p[4])})
for p in rows("srp6_internal/calculate_world_server_proof.txt"): out.append({"fn": "world", "U": s(p[0]), "K": le(p[1]), "sseed": le(p[2]), "cseed": le(p[3]), "exp": le(p[4])})
for p in rows("encryption/calculate_world_server_proof.txt"): out.append({"fn": "world", "U": s(p[0]), "K": be(p[1], 40), "sseed": le(p[2]), "cseed": le(p[3]), "exp": le(p[4])})
for p in rows("encryption/calculate_encrypt_values.txt"): out.append({"fn": "vanillaEnc", "K": le(p[0]), "data": le(p[1]), "exp": le(p[2])})
for p in rows("encryption/calculate_decrypt_values.txt"): out.append({"fn": "vanillaDec", "K": le(p[0]), "data": le(p[1]), "exp": le(p[2])})
for p in rows("encryption/calculate_tbc_encrypt_values.txt"): out.append({"fn": "tbcEnc", "K": be(p[0], 40), "data": le(p[1]), "exp": le(p[2]), "exp2": le(p[3])})
for p in rows("encryption/calculate_wrath_encrypt_values.txt"): out.append({"fn": "wrathEnc", "K": le(p[0]), "data": le(p[1]), "exp": le(p[2]), "exp2": le(p[3])})
for p in list(rows("pin/regression.txt"))[::3]: out.append({"fn": "pin", "pin": list(int(p[0]).to_bytes(4, "little")), "seed": list(int(p[1]).to_bytes(4, "little")), "ssalt": le(p[2]), "csalt": le(p[3]), "exp": le(p[4])})
for p in list(rows("integrity/generic_regression.txt"))[::5]: out.append({"fn": "integrity", "files": [le(p[0])], "salt": le(p[1]), "key": le(p[2]), "exp": le(p[3])})
for p in list(rows("integrity/reconnect_regression.txt"))[::5]: out.append({"fn": "integrityReconnect", "salt": le(p[0]), "exp": le(p[1])})
# the two real-client matrix-card vectors and the real captures embedded in the crate's tests
out.append({"fn": "cardProof", "seed": [0]*8, "K": [46,167,52,11,179,156,220,26,87,175,253,222,115,66,233,19,167,238,19,84,138,175,136,247,241,239,119,140,15,202,125,85,137,178,159,127,134,58,46,126], "entered": [0,0], "exp": [241,196,101,128,135,11,160,192,252,108,209,242,49,157,119,131,135,191,181,153]})
out.append({"fn": "cardProof", "seed": list((14574472801782155463).to_bytes(8,"little")), "K": [102,94,221,27,188,90,39,16,200,68,41,48,224,105,1,102,18,212,59,119,207,76,237,37,240,225,148,192,63,31,65,98,142,197,217,88,34,85,72,158], "entered": [0]*6, "exp": [193,75,79,43,182,117,141,123,100,155,172,137,139,67,215,195,187,55,30,231]})
out.append({"fn": "cardCoords", "w": 8, "h": 10, "count": 3, "seed": list((14574472801782155463).to_bytes(8,"little")), "exp": [[7,2],[0,0],[4,1]]})
os.makedirs("/verif/spec/vectors", exist_ok=True)
import collections
c = collections.Counter(o["fn"] for o in out)
# split into files of ~4000 vectors so that TLC can check them in parallel initial states
files = 0
for i in range(0, len(out), 4000):
    with open("/verif/spec/vectors/vectors.%02d.ndjson" % files, "w") as f:
        for o in out[i:i+4000]: f.write(json.dumps(o, separators=(",", ":")) + "\n")
    files += 1
print(len(out), "vectors in", files, "files", dict(c))
