#!/usr/bin/env python3
"""Regenerates /verif/MANIFEST.json from the table below (single source of truth for what is claimed)."""
import json, os, subprocess
V = os.path.dirname(os.path.dirname(os.path.abspath(__file__)))
props = [json.loads(l) for l in open(os.path.join(V, "properties.jsonl"))]

CLAIMS = {}
def claim(pid, text, note, technique, design):
    CLAIMS[pid] = dict(text=text, note=note, technique=technique, design=design)

TB = ("Trusted base: TLC 1.8; the JDK's SHA-1/MD5/BigInteger and a 20-line RC4 behind the Prim operator overrides "
      "(each cross-checked against its TLA+ definition by MCPrimSelfTest); serde_json; the harness logging faithfully. ")
T = "TLA+ spec + TLC: exhaustive small models, TLC-generated scenarios replayed into the crate, recorded traces validated against the trace spec"

exec(open(os.path.join(V, "tools", "claims.py")).read())

hooks_commits = subprocess.run(["git", "-C", "/repo", "log", "--format=%h %s", "--grep=verif hook"], stdout=subprocess.PIPE).stdout.decode().strip().splitlines()
m = {
 "version": 1,
 "setup_cmd": "./setup.sh",
 "hooks": {
  "guard": "wow_srp_verif",
  "enable": "rustflags --cfg wow_srp_verif in /verif/harness/.cargo/config.toml (the cfg reaches the path dependency /repo); add-only RNG taps + interleave re-export in src/verif_hooks.rs",
  "baseline_off_cmd": "cd /repo && cargo test --workspace --no-fail-fast --offline",
  "source_commits": [c.split()[0] for c in hooks_commits],
  "add_only": True
 },
 "engines": [
  {"name": "tlc-spec", "path": "spec/", "serves_properties": sorted(CLAIMS), "kind_free_text": "explicit TLA+ specification of wow_srp (spec/*.tla), exhaustive models (spec/mc), trace specifications (spec/trace), checked with TLC"},
  {"name": "harness", "path": "harness/", "serves_properties": sorted(CLAIMS), "kind_free_text": "Rust conformance harness: path dependency on /repo, rebuilt on every check; executes TLC-generated scenarios and random/directed drivers against the real API and records NDJSON traces"}
 ],
 "checks": [],
 "notes": "All verdicts come from TLC evaluating the TLA+ specification; the harness only executes and logs. See DESIGN.md.",
 "not_applicable": []
}
for p in props:
    pid = p["id"]
    if pid in CLAIMS:
        c = CLAIMS[pid]
        m["checks"].append({
            "property_id": pid,
            "quick_cmd": "./check %s quick" % pid,
            "thorough_cmd": "./check %s thorough" % pid,
            "evidence_file": "/verif/evidence/%s.json" % pid,
            "replay_cmd_template": "./check %s quick --replay {path}" % pid,
            "engine": "tlc-spec",
            "level_claimed": {"category": "model_checking", "text": c["text"], "design_ref": c["design"]},
            "level_note": TB + c["note"],
            "technique": c["technique"],
        })
    else:
        m["not_applicable"].append({"property_id": pid, "reason": "check not registered yet (under construction; the design in DESIGN.md section 4 applies the TLA+ technique to it)"})
json.dump(m, open(os.path.join(V, "MANIFEST.json"), "w"), indent=1)
print("claimed:", sorted(CLAIMS))
