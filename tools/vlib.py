"""Driver library for /verif/check: runs TLC models, the Rust harness, and TLC trace validation,
collects results, writes evidence and replay files.  python3 stdlib only."""
import json, os, re, subprocess, sys, time, shutil, hashlib

V = os.environ.get("VERIF_ROOT", "/verif")
REPO = os.environ.get("VERIF_REPO", "/repo")
OUT = os.path.join(V, "out")
HARNESS_DIR = os.path.join(V, "harness")
TLC = os.path.join(V, "tools", "tlc.sh")


class ToolError(Exception):
    pass


def log(*a):
    print(*a, flush=True)


def sh(cmd, timeout=None, env=None, cwd=None):
    e = dict(os.environ)
    if env:
        e.update(env)
    try:
        p = subprocess.run(cmd, stdout=subprocess.PIPE, stderr=subprocess.STDOUT, timeout=timeout, env=e, cwd=cwd)
    except subprocess.TimeoutExpired as ex:
        raise ToolError("timeout after %ss: %s" % (timeout, " ".join(cmd[:6])))
    return p.returncode, p.stdout.decode("utf-8", "replace")


# ----------------------------------------------------------------------------- build
def ensure_java():
    cls = os.path.join(OUT, "classes", "wowsrp", "Prim.class")
    srcs = [os.path.join(V, "java", "wowsrp", f) for f in os.listdir(os.path.join(V, "java", "wowsrp"))]
    if os.path.exists(cls) and all(os.path.getmtime(s) <= os.path.getmtime(cls) for s in srcs):
        return
    os.makedirs(os.path.join(OUT, "classes"), exist_ok=True)
    rc, o = sh(["javac", "-cp", "/opt/veriftools/tla/tla2tools.jar", "-d", os.path.join(OUT, "classes")] + srcs, timeout=300)
    if rc != 0:
        raise ToolError("javac failed:\n" + o)


def build_harness(fast=False):
    """cargo build (offline) against /repo's current working tree, hooks enabled by .cargo/config.toml"""
    env = {"CARGO_NET_OFFLINE": "true"}
    cmd = ["cargo", "build", "--release", "--offline"]
    tdir = "target"
    if fast:
        env["C_INCLUDE_PATH"] = os.path.join(V, "tools", "gmpshim")
        env["CARGO_TARGET_DIR"] = os.path.join(HARNESS_DIR, "target-fast")
        cmd += ["--no-default-features", "--features", "fast"]
        tdir = "target-fast"
    t0 = time.time()
    rc, o = sh(cmd, timeout=1800, env=env, cwd=HARNESS_DIR)
    if rc != 0:
        raise ToolError("harness build failed (this is a build error of /repo or the harness, not a property violation):\n" + o[-4000:])
    return os.path.join(HARNESS_DIR, tdir, "release", "wsh"), time.time() - t0


# ----------------------------------------------------------------------------- TLC
RE_STATES = re.compile(r"^(\d+) states generated, (\d+) distinct states found")


def unescape_tla(s):
    # TLC prints strings with \" and \\ escapes
    return s.replace('\\"', '"').replace("\\\\", "\\")


class TlcResult:
    def __init__(self):
        self.rc = None
        self.generated = 0
        self.distinct = 0
        self.replay = []      # parsed JSON objects of REPLAY lines
        self.viol = []        # (line, ev, [tags])
        self.stats = {}
        self.errors = []      # error text lines
        self.invariant = None  # violated invariant name
        self.rejected = None
        self.stuck = None
        self.out = ""
        self.wall = 0.0
        self.zero_cov = []
        self.unparsed = False


def run_tlc(name, module, cfg=None, workers=4, extra=None, env=None, timeout=3600, xmx=None, keep_output=True, coverage=False):
    ensure_java()
    cmd = [TLC, name, module]
    if cfg:
        cmd += ["-config", cfg]
    cmd += ["-workers", str(workers)]
    if coverage:
        cmd += ["-coverage", "1"]
    if extra:
        cmd += extra
    e = {}
    if env:
        e.update(env)
    if xmx:
        e["TLC_XMX"] = "-Xmx" + xmx
    t0 = time.time()
    rc, o = sh(cmd, timeout=timeout, env=e)
    r = TlcResult()
    r.rc, r.out, r.wall = rc, o, time.time() - t0
    # TLC pretty-prints tuples and wraps them at 80 columns, so records are matched over the whole output
    for line in o.splitlines():
        m = RE_STATES.match(line)
        if m:
            r.generated, r.distinct = int(m.group(1)), int(m.group(2))
        ms = re.match(r"The number of states generated: (\d+)", line)      # simulation mode
        if ms:
            r.generated = r.distinct = int(ms.group(1))
        if line.startswith("Error:") or "*** Errors" in line or "Exception" in line:
            r.errors.append(line)
        m3 = re.match(r"Error: Invariant (\S+) is violated", line)
        if m3:
            r.invariant = m3.group(1)
    for m in re.finditer(r'<<\s*"REPLAY",\s*"((?:[^"\\]|\\.)*)"\s*>>', o):
        try:
            r.replay.append(json.loads(unescape_tla(m.group(1))))
        except Exception as ex:
            raise ToolError("cannot parse REPLAY record: %s: %s" % (ex, m.group(0)[:200]))
    for m in re.finditer(r'<<\s*"VIOL",\s*(\d+),\s*"([^"]*)",\s*\{([^}]*)\}\s*>>', o):
        tags = [t.strip().strip('"') for t in m.group(3).split(",") if t.strip()]
        r.viol.append((int(m.group(1)), m.group(2), tags))
    nviol_marks = len(re.findall(r'"VIOL"', o))
    if nviol_marks != len(r.viol):
        r.errors.append("unparsed VIOL records: %d marks, %d parsed" % (nviol_marks, len(r.viol)))
        r.unparsed = True
    for m in re.finditer(r'<<\s*"STATS",\s*"((?:[^"\\]|\\.)*)"\s*>>', o):
        try:
            r.stats = json.loads(unescape_tla(m.group(1)))
        except Exception:
            pass
    m = re.search(r'<<\s*"REJECTED".*?>>', o, re.S)
    if m:
        r.rejected = m.group(0)
    m = re.search(r'<<\s*"STUCK-AT".*', o, re.S)
    if m:
        r.stuck = m.group(0)[:600]
    if coverage:
        # an action with zero count means the model never exercised it (vacuity)
        for m in re.finditer(r"^<(\w+) line \d+, col \d+ to line \d+, col \d+ of module (\w+)>: (\d+):(\d+)", o, re.M):
            if int(m.group(4)) == 0 and m.group(1) not in ("Init",):
                r.zero_cov.append(m.group(1))
    # clean the run directory's tmp (TLC unpacks standard modules there)
    shutil.rmtree(os.path.join(OUT, "tlc", name, "tmp"), ignore_errors=True)
    return r


def model_ok(r):
    return r.rc == 0 and not r.invariant and r.generated > 0


# ----------------------------------------------------------------------------- harness
def run_harness(binary, mode, out, seed, tier, scen=None, n=None, extra=None, timeout=3600):
    cmd = [binary, mode, "--out", out, "--seed", str(seed), "--tier", tier]
    if scen:
        cmd += ["--scen", scen]
    if n is not None:
        cmd += ["--n", str(n)]
    if extra:
        cmd += extra
    rc, o = sh(cmd, timeout=timeout)
    m = re.search(r"HARNESS mode=(\S+) events=(\d+) scenarios=(\d+)", o)
    if rc != 0 or not m:
        raise ToolError("harness %s failed rc=%s:\n%s" % (mode, rc, o[-3000:]))
    return int(m.group(2)), int(m.group(3))


def write_ndjson(path, objs):
    with open(path, "w") as f:
        for o in objs:
            f.write(json.dumps(o, separators=(",", ":")) + "\n")


def split_trace(path, max_events=15000):
    """Split a trace at reset events into files of at most ~max_events lines."""
    parts, cur, n = [], [], 0
    base = path[:-len(".ndjson")]
    with open(path) as f:
        for line in f:
            if line.startswith('{"ev":"reset"') and n >= max_events:
                parts.append(cur)
                cur, n = [], 0
            cur.append(line)
            # block-digest events stand for thousands of native calls that TLC recomputes: weigh them accordingly
            n += 400 if len(line) < 400 and '"ev":"SizeSweep"' in line else 1
    if cur:
        parts.append(cur)
    if len(parts) <= 1:
        return [path]
    files = []
    for i, p in enumerate(parts):
        fn = "%s.part%d.ndjson" % (base, i)
        with open(fn, "w") as f:
            f.writelines(p)
        files.append(fn)
    return files


def validate_traces(name, tracemod, files, timeout=3600, parallel=4):
    """Validate trace files against a trace specification; returns list of (file, TlcResult)."""
    ensure_java()
    import concurrent.futures
    results = []

    def one(i_f):
        i, f = i_f
        return f, run_tlc("%s-%d" % (name, i), tracemod, workers=1, env={"TRACE": f,
                          "TLC_JAVA_OPTS": "-Dtlc2.tool.queue.IStateQueue=StateDeque"}, timeout=timeout, xmx="3g -Xmn32m")
    with concurrent.futures.ThreadPoolExecutor(max_workers=parallel) as ex:
        for f, r in ex.map(one, list(enumerate(files))):
            results.append((f, r))
    return results
