#!/bin/sh
# usage: tools/tlc.sh <run-name> <Module> [-config Other.cfg] [tlc args...]
# Runs TLC on spec module <Module> with the wowsrp operator overrides.  All modules under
# spec/, spec/mc and spec/trace are linked into a private run directory (TLC resolves
# EXTENDS relative to the root module), with private tmpdir and metadir under out/.
V="${VERIF_ROOT:-/verif}"
NAME="$1"; MOD="$2"; shift 2
W="$V/out/tlc/$NAME"
rm -rf "$W"
mkdir -p "$W/w" "$W/meta" "$W/tmp"
for f in "$V"/spec/*.tla "$V"/spec/tlaps/*.tla "$V"/spec/mc/*.tla "$V"/spec/mc/*.cfg "$V"/spec/trace/*.tla "$V"/spec/trace/*.cfg "$V"/out/gen/*.cfg; do
  [ -e "$f" ] && ln -sf "$f" "$W/w/"
done
cd "$W/w" || exit 2
CFG="$MOD.cfg"
if [ "$1" = "-config" ]; then CFG="$2"; shift 2; fi
exec java -Xss${TLC_XSS:-512m} ${TLC_XMX:--Xmx4g -Xmn48m} ${TLC_GC:--XX:+UseSerialGC} \
  -Djava.io.tmpdir="$W/tmp" \
  -Dtlc2.overrides.TLCOverrides=tlc2.overrides.TLCOverrides:wowsrp.Overrides \
  ${TLC_JAVA_OPTS} \
  -cp /opt/veriftools/tla/tla2tools.jar:/opt/veriftools/tla/CommunityModules-deps.jar:"$V/out/classes" \
  tlc2.TLC -nowarning -metadir "$W/meta" -cleanup -noGenerateSpecTE -config "$CFG" "$@" "$MOD.tla"
