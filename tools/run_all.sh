#!/bin/sh
# usage: tools/run_all.sh quick|thorough  -> out/all-<tier>.log with one line per property
cd "$(dirname "$0")/.."
TIER="$1"
[ -n "$PROPS" ] || : > out/all-$TIER.log
for p in ${PROPS:-C01 C02 C03 C04 C05 C06 C07 C08 C09 C10 C11 C12 C13 C14 C15 C16 C17 C18 C19}; do
  s=$(date +%s)
  ./check $p $TIER > out/all-$TIER-$p.log 2>&1
  rc=$?
  e=$(date +%s)
  echo "$p rc=$rc $((e - s))s $(grep -E '^OK|^VIOLATION|^TOOL-ERROR' out/all-$TIER-$p.log | head -2 | tr '\n' ' ' | cut -c1-200)" >> out/all-$TIER.log
done
