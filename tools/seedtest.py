#!/usr/bin/env python3
"""tools/seedtest.py <property> <mutation-dir> <scratch-worktree> [--tier quick] [--also C11,C12]
Confirms a seeded change (patch.diff + demo.rs): in the scratch worktree the existing suite passes with the
patch and the demo fails with it / passes without it; then applies the patch to /repo, runs ./check, reverts.
Stores the confirmed change under /verif/seeded/<property>-<name>/ with meta.json."""
import json, os, shutil, subprocess, sys, time
pid, mdir, wt = sys.argv[1], sys.argv[2].rstrip("/"), sys.argv[3]
tier = "quick"
also = []
if "--tier" in sys.argv: tier = sys.argv[sys.argv.index("--tier") + 1]
if "--also" in sys.argv: also = sys.argv[sys.argv.index("--also") + 1].split(",")
skip_confirm = "--skip-confirm" in sys.argv
patch = os.path.join(mdir, "patch.diff")
demo = os.path.join(mdir, "demo.rs")
env = dict(os.environ, CARGO_TARGET_DIR=os.path.join(wt, "target"), CARGO_NET_OFFLINE="true")
def sh(cmd, cwd=None, e=None, timeout=3000):
    p = subprocess.run(cmd, cwd=cwd, env=e or os.environ, stdout=subprocess.PIPE, stderr=subprocess.STDOUT, timeout=timeout)
    return p.returncode, p.stdout.decode("utf-8", "replace")
meta = {"property": pid, "source": mdir, "ran": []}
feat = []
if "matrix_card" in open(patch).read() or "matrix_card" in open(demo).read(): feat = ["--features", "matrix-card"]
if not skip_confirm:
    sh(["git", "checkout", "--", "."], cwd=wt); 
    if os.path.exists(os.path.join(wt, "tests", "demo.rs")): os.remove(os.path.join(wt, "tests", "demo.rs"))
    shutil.copy(demo, os.path.join(wt, "tests", "demo.rs"))
    rc0, o0 = sh(["cargo", "test", "--offline", "--test", "demo"] + feat, cwd=wt, e=env)
    rc, o = sh(["git", "apply", patch], cwd=wt)
    if rc != 0: print("patch does not apply:", o); sys.exit(2)
    rc1, o1 = sh(["cargo", "test", "--offline", "--test", "demo"] + feat, cwd=wt, e=env)
    os.remove(os.path.join(wt, "tests", "demo.rs"))
    rc2, o2 = sh(["cargo", "test", "--offline"], cwd=wt, e=env)
    sh(["git", "checkout", "--", "."], cwd=wt)
    meta["demo_passes_without_change"] = rc0 == 0
    meta["demo_fails_with_change"] = rc1 != 0
    meta["existing_suite_passes_with_change"] = rc2 == 0
    meta["ran"] += ["cargo test --offline --test demo (without / with patch)", "cargo test --offline (with patch)"]
    print("confirm: demo without=%s with=%s suite-with=%s" % ("pass" if rc0 == 0 else "FAIL", "fail" if rc1 != 0 else "PASS(!)", "pass" if rc2 == 0 else "FAIL(!)"))
    if not (rc0 == 0 and rc1 != 0 and rc2 == 0):
        print((o0[-1500:] if rc0 else "") + (o1[-800:] if rc1 == 0 else "") + (o2[-1500:] if rc2 else ""))
        print("NOT CONFIRMED"); sys.exit(3)
# run the checks against /repo with the patch applied
rc, o = sh(["git", "-C", "/repo", "status", "--porcelain"])
if o.strip(): print("/repo not clean:", o); sys.exit(2)
rc, o = sh(["git", "-C", "/repo", "apply", patch])
if rc != 0: print("patch does not apply to /repo:", o); sys.exit(2)
results = {}
try:
    for p in [pid] + also:
        t = time.time()
        rc, o = sh(["./check", p, tier], cwd="/verif", timeout=7200)
        viol = [l for l in o.splitlines() if l.startswith("VIOLATION")]
        results[p] = {"exit": rc, "violations": len(viol), "first": viol[:3], "wall_s": round(time.time() - t, 1)}
        print("check %s %s: exit=%d violations=%d %s" % (p, tier, rc, len(viol), viol[0][:160] if viol else ""))
        if rc == 2: print(o[-1500:])
finally:
    sh(["git", "-C", "/repo", "checkout", "--", "."])
meta["checks"] = results
meta["detected_by"] = [p for p, r in results.items() if r["exit"] == 1]
meta["ran"].append("git -C /repo apply patch.diff; ./check <id> %s; git -C /repo checkout -- ." % tier)
name = os.path.basename(mdir)
dst = os.path.join("/verif/seeded", "%s-%s" % (pid, name))
os.makedirs(dst, exist_ok=True)
shutil.copy(patch, os.path.join(dst, "patch.diff")); shutil.copy(demo, os.path.join(dst, "demo.rs"))
if os.path.exists(os.path.join(mdir, "notes.md")): shutil.copy(os.path.join(mdir, "notes.md"), os.path.join(dst, "notes.md"))
old = {}
if os.path.exists(os.path.join(dst, "meta.json")): old = json.load(open(os.path.join(dst, "meta.json")))
old.update(meta)
json.dump(old, open(os.path.join(dst, "meta.json"), "w"), indent=1)
print("DETECTED by", meta["detected_by"] if meta["detected_by"] else "NOTHING")
