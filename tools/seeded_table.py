#!/usr/bin/env python3
"""Regenerates section 12 of DESIGN.md (between the SEEDED-TABLE markers) from seeded/*/meta.json."""
import json, os, re
V = os.path.dirname(os.path.dirname(os.path.abspath(__file__)))
rows = []
for d in sorted(os.listdir(os.path.join(V, "seeded"))):
    mp = os.path.join(V, "seeded", d, "meta.json")
    if not os.path.exists(mp):
        continue
    m = json.load(open(mp))
    chk = m.get("checks", {})
    first = ""
    for p, r in chk.items():
        if r.get("first"):
            mm = re.search(r"\(([^)]*)\)\s*$", r["first"][0])
            first = mm.group(1) if mm else ""
            break
    det = ", ".join("./check %s %s" % (p, m.get("tier", "quick")) for p in m.get("detected_by", [])) or "**not detected**"
    rows.append("| %s | %s | %s | %s | %s |" % (d, m.get("change", ""), m.get("needs_to_manifest", ""), det, first + ((" - " + m["history"]) if m.get("history") else "")))
table = "\n".join(["| id | change to gtker/wow_srp (compiles, 83 tests pass, demo fails) | needs to manifest | caught by | first flagged event and tags / history |", "|---|---|---|---|---|"] + rows)
p = os.path.join(V, "DESIGN.md")
s = open(p).read()
a, b = "<!-- SEEDED-TABLE-BEGIN -->", "<!-- SEEDED-TABLE-END -->"
if a in s:
    s = s[:s.index(a) + len(a)] + "\n" + table + "\n" + s[s.index(b):]
    open(p, "w").write(s)
print(len(rows), "rows")
