#!/usr/bin/env python3
"""Binding demonstration: for every event type of a recorded trace, corrupt ONE recorded result field of one event
and show that the trace specification flags exactly that line (a trace spec that accepts a corrupted trace is a
broken check).  usage: tools/binding_demo.py <TraceModule> <trace.ndjson> [max_events]
Writes out/binding-<TraceModule>.json and prints a table."""
import copy, json, os, sys
sys.path.insert(0, os.path.dirname(os.path.abspath(__file__)))
import vlib

def corrupt(v):
    """corrupt the first byte array / bool / int found (depth first); returns True if something changed"""
    if isinstance(v, dict):
        for k in sorted(v):
            if k in ("kind", "display", "msg", "note", "via"):
                continue
            x = v[k]
            if isinstance(x, bool):
                v[k] = not x; return True
            if isinstance(x, int):
                v[k] = x + 1; return True
            if isinstance(x, list) and x and all(isinstance(i, int) and not isinstance(i, bool) for i in x):
                x[len(x) // 2] = (x[len(x) // 2] + 1) % 256; return True
            if isinstance(x, (dict, list)) and corrupt(x):
                return True
    elif isinstance(v, list):
        for x in v:
            if isinstance(x, (dict, list)) and corrupt(x):
                return True
    return False

def main():
    mod, trace = sys.argv[1], sys.argv[2]
    limit = int(sys.argv[3]) if len(sys.argv) > 3 else 4000
    lines = open(trace).read().splitlines()[:limit]
    # cut at the last reset so that the truncated trace ends on a scenario boundary
    first = {}
    for i, l in enumerate(lines):
        e = json.loads(l)
        if e.get("ev") != "reset" and "res" in e and e["ev"] not in first:
            first[e["ev"]] = i
    rows = []
    os.makedirs(os.path.join(vlib.OUT, "binding"), exist_ok=True)
    for ev, i in sorted(first.items()):
        e = json.loads(lines[i])
        e2 = copy.deepcopy(e)
        if not corrupt(e2["res"]):
            rows.append({"event": ev, "line": i + 1, "result": "no corruptible result field"}); continue
        out = os.path.join(vlib.OUT, "binding", "%s-%s.ndjson" % (mod, ev))
        with open(out, "w") as f:
            f.write("\n".join(lines[:i] + [json.dumps(e2, separators=(",", ":"))] + lines[i + 1:]) + "\n")
        r = vlib.run_tlc("binding-%s-%s" % (mod, ev), mod, workers=1, env={"TRACE": out}, xmx="3g -Xmn32m", timeout=1200)
        hit = [v for v in r.viol if v[0] == i + 1]
        rows.append({"event": ev, "line": i + 1, "flagged_at_line": bool(hit), "tags": hit[0][2] if hit else [],
                     "other_flagged_lines": len([v for v in r.viol if v[0] != i + 1]), "consumed": not r.stuck})
        os.remove(out)
    json.dump(rows, open(os.path.join(vlib.OUT, "binding-%s.json" % mod), "w"), indent=1)
    ok = True
    for r in rows:
        print("%-20s line %-6s %s %s" % (r["event"], r["line"], "REJECTED" if r.get("flagged_at_line") else r.get("result", "ACCEPTED (!)"), ",".join(r.get("tags", []))))
        if "flagged_at_line" in r and not r["flagged_at_line"]:
            ok = False
    sys.exit(0 if ok else 1)

if __name__ == "__main__":
    main()
