package wowsrp;

import tlc2.overrides.ITLCOverrides;

/** Registered through -Dtlc2.overrides.TLCOverrides=tlc2.overrides.TLCOverrides:wowsrp.Overrides */
public class Overrides implements ITLCOverrides {
    @SuppressWarnings("rawtypes")
    @Override
    public Class[] get() {
        return new Class[] {Prim.class};
    }
}
