package wowsrp;

import java.math.BigInteger;
import java.security.MessageDigest;

import tlc2.overrides.TLAPlusOperator;
import tlc2.value.impl.IntValue;
import tlc2.value.impl.TupleValue;
import tlc2.value.impl.Value;

/**
 * TLC operator overrides for module Prim.  Every operator overridden here has a
 * mathematical definition in Prim.tla (XDef); MCPrimSelfTest compares the two.
 * Only JDK classes are used: MessageDigest (SHA-1, MD5), BigInteger, and a
 * 20-line RC4.
 *
 * Byte strings are TLA+ sequences of 0..255.  Big numbers are little-endian byte
 * strings of any length; results are the minimal little-endian encoding (zero is
 * the empty sequence).
 */
public final class Prim {
    private Prim() {}

    // ---------------------------------------------------------------- helpers
    static byte[] bytes(final Value v) {
        final TupleValue t = (TupleValue) v.toTuple();
        if (t == null) {
            throw new RuntimeException("wowsrp.Prim: expected a sequence of bytes, got " + v);
        }
        final Value[] e = t.elems;
        final byte[] out = new byte[e.length];
        for (int i = 0; i < e.length; i++) {
            final int x = ((IntValue) e[i]).val;
            if (x < 0 || x > 255) {
                throw new RuntimeException("wowsrp.Prim: byte out of range: " + x);
            }
            out[i] = (byte) x;
        }
        return out;
    }

    static TupleValue seq(final byte[] b) {
        final Value[] e = new Value[b.length];
        for (int i = 0; i < b.length; i++) {
            e[i] = IntValue.gen(b[i] & 0xFF);
        }
        return new TupleValue(e);
    }

    static BigInteger nat(final Value v) {
        final byte[] le = bytes(v);
        final byte[] be = new byte[le.length + 1];
        for (int i = 0; i < le.length; i++) {
            be[le.length - i] = le[i];
        }
        return new BigInteger(be); // leading 0 byte keeps it non-negative
    }

    static TupleValue le(final BigInteger n) {
        if (n.signum() < 0) {
            throw new RuntimeException("wowsrp.Prim: negative result");
        }
        if (n.signum() == 0) {
            return new TupleValue(new Value[0]);
        }
        final byte[] be = n.toByteArray();
        int start = 0;
        while (start < be.length - 1 && be[start] == 0) {
            start++;
        }
        final Value[] e = new Value[be.length - start];
        for (int i = 0; i < e.length; i++) {
            e[i] = IntValue.gen(be[be.length - 1 - i] & 0xFF);
        }
        return new TupleValue(e);
    }

    // ----------------------------------------------------------------- hashes
    @TLAPlusOperator(identifier = "SHA1", module = "Prim", warn = false)
    public static Value sha1(final Value m) throws Exception {
        return seq(MessageDigest.getInstance("SHA-1").digest(bytes(m)));
    }

    @TLAPlusOperator(identifier = "MD5", module = "Prim", warn = false)
    public static Value md5(final Value m) throws Exception {
        return seq(MessageDigest.getInstance("MD5").digest(bytes(m)));
    }

    // ------------------------------------------------------------ big numbers
    @TLAPlusOperator(identifier = "BnModExp", module = "Prim", warn = false)
    public static Value modExp(final Value b, final Value e, final Value n) {
        return le(nat(b).modPow(nat(e), nat(n)));
    }

    @TLAPlusOperator(identifier = "BnMulMod", module = "Prim", warn = false)
    public static Value mulMod(final Value a, final Value b, final Value n) {
        return le(nat(a).multiply(nat(b)).mod(nat(n)));
    }

    @TLAPlusOperator(identifier = "BnAddMod", module = "Prim", warn = false)
    public static Value addMod(final Value a, final Value b, final Value n) {
        return le(nat(a).add(nat(b)).mod(nat(n)));
    }

    @TLAPlusOperator(identifier = "BnSubMod", module = "Prim", warn = false)
    public static Value subMod(final Value a, final Value b, final Value n) {
        return le(nat(a).subtract(nat(b)).mod(nat(n)));
    }

    @TLAPlusOperator(identifier = "BnMul", module = "Prim", warn = false)
    public static Value mul(final Value a, final Value b) {
        return le(nat(a).multiply(nat(b)));
    }

    @TLAPlusOperator(identifier = "BnAdd", module = "Prim", warn = false)
    public static Value add(final Value a, final Value b) {
        return le(nat(a).add(nat(b)));
    }

    @TLAPlusOperator(identifier = "BnMod", module = "Prim", warn = false)
    public static Value mod(final Value a, final Value n) {
        return le(nat(a).mod(nat(n)));
    }

    @TLAPlusOperator(identifier = "BnDiv", module = "Prim", warn = false)
    public static Value div(final Value a, final Value n) {
        return le(nat(a).divide(nat(n)));
    }

    @TLAPlusOperator(identifier = "BnCmp", module = "Prim", warn = false)
    public static Value cmp(final Value a, final Value b) {
        return IntValue.gen(nat(a).compareTo(nat(b)));
    }

    // -------------------------------------------------------------------- RC4
    // State is the TLA+ tuple <<S, i, j>> with S a sequence of 256 bytes
    // (S[k+1] is the S-box entry k).
    @TLAPlusOperator(identifier = "RC4Init", module = "Prim", warn = false)
    public static Value rc4Init(final Value key) {
        final byte[] k = bytes(key);
        final int[] s = new int[256];
        for (int i = 0; i < 256; i++) {
            s[i] = i;
        }
        int j = 0;
        for (int i = 0; i < 256; i++) {
            j = (j + s[i] + (k[i % k.length] & 0xFF)) & 0xFF;
            final int t = s[i];
            s[i] = s[j];
            s[j] = t;
        }
        return state(s, 0, 0);
    }

    private static Value state(final int[] s, final int i, final int j) {
        final Value[] e = new Value[256];
        for (int k = 0; k < 256; k++) {
            e[k] = IntValue.gen(s[k]);
        }
        return new TupleValue(new Value[] {new TupleValue(e), IntValue.gen(i), IntValue.gen(j)});
    }

    /** RC4Apply(st, data) == <<data XOR keystream, st'>> */
    @TLAPlusOperator(identifier = "RC4Apply", module = "Prim", warn = false)
    public static Value rc4Apply(final Value st, final Value data) {
        final TupleValue t = (TupleValue) st.toTuple();
        final byte[] sb = bytes(t.elems[0]);
        final int[] s = new int[256];
        for (int k = 0; k < 256; k++) {
            s[k] = sb[k] & 0xFF;
        }
        int i = ((IntValue) t.elems[1]).val;
        int j = ((IntValue) t.elems[2]).val;
        final byte[] d = bytes(data);
        final byte[] out = new byte[d.length];
        for (int n = 0; n < d.length; n++) {
            i = (i + 1) & 0xFF;
            j = (j + s[i]) & 0xFF;
            final int tmp = s[i];
            s[i] = s[j];
            s[j] = tmp;
            out[n] = (byte) ((d[n] & 0xFF) ^ s[(s[i] + s[j]) & 0xFF]);
        }
        return new TupleValue(new Value[] {seq(out), state(s, i, j)});
    }
}
